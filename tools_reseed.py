#!/venv/bin/python
"""Replay the whole archive of seeded changes against the CURRENT checks and the CURRENT /repo HEAD (development aid, not a
registered command): for every /verif/seeded/<id>/ apply patch.diff in a scratch worktree (under /dev/shm, removed at the
end), run the quick tier of the checks its meta.json names in `detected_by` through PYTHONPATH, and require exit code 1 with
a VIOLATION line from at least one of them.  /repo itself is never touched; evidence and replay files go to /dev/shm.
    usage: tools_reseed.py [-j N] [id-glob ...]        result: /verif/seeded/RESEED.json + one line per seed"""
import os, sys, json, glob, shutil, subprocess, fnmatch, time
from concurrent.futures import ThreadPoolExecutor

args = sys.argv[1:]
J = 4
if "-j" in args:
    i = args.index("-j")
    J = int(args[i + 1])
    del args[i:i + 2]
pats = args or ["*"]
seeds = sorted(os.path.basename(os.path.dirname(p)) for p in glob.glob("/verif/seeded/*/meta.json"))
seeds = [s for s in seeds if any(fnmatch.fnmatch(s, p) for p in pats)]
head = subprocess.run("git -C /repo rev-parse HEAD", shell=True, capture_output=True, text=True).stdout.strip()
BASE = "/dev/shm/reseed"
shutil.rmtree(BASE, ignore_errors=True)
os.makedirs(BASE)
free = []
for k in range(J):
    wt = os.path.join(BASE, "wt%d" % k)
    subprocess.run("git -C /repo worktree add -q --detach %s %s" % (wt, head), shell=True, check=True)
    free.append(wt)


def one(sid):
    wt = free.pop()
    try:
        meta = json.load(open("/verif/seeded/%s/meta.json" % sid))
        checks = meta.get("detected_by") or [meta["property"]]
        env = dict(os.environ, PYTHONPATH=wt, KV_EVIDENCE_DIR="%s/ev_%s" % (BASE, sid), KV_REPLAY_DIR="%s/rp_%s" % (BASE, sid))
        subprocess.run("git checkout -q -- . && git clean -qfd amr_kitchen", shell=True, cwd=wt)
        r = subprocess.run("git apply /verif/seeded/%s/patch.diff" % sid, shell=True, cwd=wt, capture_output=True, text=True)
        if r.returncode:
            return sid, {"applies": False, "detected": False, "checks": {}}
        res = {}
        for c in checks:
            t0 = time.time()
            r = subprocess.run("bin/check %s --tier quick" % c, shell=True, cwd="/verif", env=env, capture_output=True, text=True)
            nv = sum(1 for l in r.stdout.split("\n") if l.startswith("VIOLATION"))
            res[c] = {"rc": r.returncode, "violation_lines": nv, "wall_s": round(time.time() - t0, 1)}
            if r.returncode == 1 and nv:
                break                      # one reporting check is enough
        for d in (env["KV_EVIDENCE_DIR"], env["KV_REPLAY_DIR"]):
            shutil.rmtree(d, ignore_errors=True)
        subprocess.run("git checkout -q -- . && git clean -qfd amr_kitchen", shell=True, cwd=wt)
        return sid, {"applies": True, "detected": any(v["rc"] == 1 and v["violation_lines"] for v in res.values()), "checks": res}
    finally:
        free.append(wt)


out = {}
with ThreadPoolExecutor(J) as ex:
    for sid, r in ex.map(one, seeds):
        out[sid] = r
        print(sid, "detected" if r["detected"] else ("NOT DETECTED" if r["applies"] else "PATCH DOES NOT APPLY"),
              " ".join("%s:rc%d/%d/%.0fs" % (c, v["rc"], v["violation_lines"], v["wall_s"]) for c, v in r["checks"].items()), flush=True)
for k in range(J):
    subprocess.run("git -C /repo worktree remove --force %s" % os.path.join(BASE, "wt%d" % k), shell=True)
subprocess.run("git -C /repo worktree prune", shell=True)
shutil.rmtree(BASE, ignore_errors=True)
summary = {"repo_head": head, "seeds": len(out), "detected": sum(1 for r in out.values() if r["detected"]),
           "not_detected": sorted(s for s, r in out.items() if not r["detected"]), "results": out}
if pats == ["*"]:
    json.dump(summary, open("/verif/seeded/RESEED.json", "w"), indent=1)
print("seeds=%d detected=%d not_detected=%s" % (summary["seeds"], summary["detected"], summary["not_detected"]))
