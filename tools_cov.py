#!/venv/bin/python
"""Development aid: merge the line sets written by the runner under KV_COVERAGE=<dir> and list, per function of the
package, the executable lines that no check executed.  usage: tools_cov.py <dir> [file-substring]"""
import os, sys, json, glob, ast

def exec_lines(path):
    src = open(path).read()
    code = compile(src, path, "exec")
    lines = set()
    stack = [code]
    while stack:
        c = stack.pop()
        for _, _, ln in c.co_lines():
            if ln:
                lines.add(ln)
        for k in c.co_consts:
            if hasattr(k, "co_lines"):
                stack.append(k)
    # drop docstring / def lines noise: keep as is
    return lines, src.splitlines(), ast.parse(src)

def func_of(tree):
    m = {}
    for node in ast.walk(tree):
        if isinstance(node, (ast.FunctionDef, ast.AsyncFunctionDef)):
            for ln in range(node.lineno, node.end_lineno + 1):
                m.setdefault(ln, node.name)
                # innermost wins: overwrite when nested deeper
            for sub in ast.walk(node):
                pass
    # innermost: process by size descending
    funcs = sorted([n for n in ast.walk(tree) if isinstance(n, (ast.FunctionDef, ast.AsyncFunctionDef))], key=lambda n: -(n.end_lineno - n.lineno))
    m = {}
    for n in funcs:
        for ln in range(n.lineno, n.end_lineno + 1):
            m[ln] = n.name
    return m

def main():
    d = sys.argv[1]
    filt = sys.argv[2] if len(sys.argv) > 2 else ""
    cov = set()
    for f in glob.glob(os.path.join(d, "*.json")):
        for fn, ln in json.load(open(f)):
            cov.add((os.path.realpath(fn), ln))
    root = "/repo/amr_kitchen"
    tot = totc = 0
    for dp, dn, fns in os.walk(root):
        for fn in sorted(fns):
            if not fn.endswith(".py"):
                continue
            p = os.path.realpath(os.path.join(dp, fn))
            if filt not in p:
                continue
            lines, src, tree = exec_lines(p)
            fm = func_of(tree)
            miss = sorted(l for l in lines if (p, l) not in cov)
            tot += len(lines); totc += len(lines) - len(miss)
            print("== %s: %d/%d executable lines covered" % (os.path.relpath(p, root), len(lines) - len(miss), len(lines)))
            if "-v" in sys.argv:
                cur = None
                for l in miss:
                    f_ = fm.get(l, "<module>")
                    if f_ != cur:
                        print("   -- %s" % f_)
                        cur = f_
                    print("   %5d  %s" % (l, src[l - 1].rstrip()[:150]))
    print("TOTAL %d/%d" % (totc, tot))
main()
