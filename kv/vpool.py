"""Controlled process-pool substitute: the harness owns the scheduler.

In-process back-end: tasks run in the harness process, in the order the schedule dictates,
through a pickle boundary (pickle for multiprocessing, dill for pathos), with the result
delivery semantics of CPython 3.12 multiprocessing.pool / pathos 0.3.5:

  map            all tasks; results in submission order; first failure (in completion order) re-raised
  imap           results in submission order, lazily; exception raised at the failing item
  imap_unordered results in completion order
  uimap/amap     pathos spellings

Schedule of one pool call with n tasks = (permutation of the n tasks = execution and completion
order, mode lazy|eager).  lazy: a task runs only when the consumer demands a result that needs it
(workers never run ahead of the parent); eager: all tasks run, in permutation order, before the
call returns (workers run arbitrarily far ahead).
"""
import sys
import pickle
import itertools
import multiprocessing
import multiprocessing.pool

_ORIG = {}
ACTIVE = None   # the Controller in force


class HarnessError(Exception):
    pass


class Controller(object):
    def __init__(self, plan=None, default_mode="lazy", boundary=True, nworkers=None):
        import os as _os
        self.nworkers = nworkers or (_os.cpu_count() or 1)    # what Pool() without argument starts
        self.plan = dict(plan or {})     # call index -> (perm tuple or None, mode or None)
        self.default_mode = default_mode
        self.calls = []                  # per pool call: dict(kind, n, flavor, perm, mode)
        self.trace = []                  # (call index, task index) in execution order
        self.boundary = boundary
        self.pools_created = 0
        self.task_spans = []             # (call index, task index, first event, end event) in the audit event list
        self.call_starts = {}            # call index -> audit mark when the call was issued

    def schedule_for(self, kind, n, flavor):
        ci = len(self.calls)
        perm, mode = self.plan.get(ci, (None, None))
        if perm is None:
            perm = tuple(range(n))
        else:
            perm = tuple(perm)
            if sorted(perm) != list(range(n)):
                raise HarnessError("schedule for call %d is not a permutation of %d tasks: %r"
                                   % (ci, n, perm))
        if mode is None:
            mode = "eager" if kind in ("map", "map_async") else self.default_mode
        self.calls.append({"kind": kind, "n": n, "flavor": flavor, "perm": perm, "mode": mode})
        return ci, perm, mode


def _xfer(obj, flavor):
    if flavor == "pathos":
        import dill
        return dill.loads(dill.dumps(obj))
    return pickle.loads(pickle.dumps(obj))


class _Failure(object):
    def __init__(self, exc):
        self.exc = exc


class _CallState(object):
    """One map/imap call: runs tasks on demand in permutation order."""

    def __init__(self, ctl, ci, func, tasks, perm, flavor):
        self.ctl, self.ci, self.func, self.tasks, self.perm, self.flavor = ctl, ci, func, tasks, perm, flavor
        self.results = {}
        self.pos = 0      # next position in perm to run

    def run_next(self):
        t = self.perm[self.pos]
        self.pos += 1
        self.ctl.trace.append((self.ci, t))
        from . import audit as _audit
        m0 = _audit.mark()
        try:
            self._run_task(t)
        finally:
            if m0 is not None:
                self.ctl.task_spans.append((self.ci, t, m0, _audit.mark()))
        return t

    def _run_task(self, t):
        try:
            args = self.tasks[t]
            if self.ctl.boundary:
                args = _xfer(args, self.flavor)
            if isinstance(args, _Star):
                res = self.func(*args.args)
            else:
                res = self.func(args)
            if self.ctl.boundary:
                res = _xfer(res, self.flavor)
            self.results[t] = res
        except Exception as e:      # worker exceptions travel back to the parent
            self.results[t] = _Failure(e)
        return t

    def run_all(self):
        while self.pos < len(self.perm):
            self.run_next()

    def need(self, t):
        while t not in self.results:
            if self.pos >= len(self.perm):
                raise HarnessError("task %d never scheduled" % t)
            self.run_next()
        return self.results[t]


class _Star(object):
    def __init__(self, args):
        self.args = args


class _OrderedIter(object):
    def __init__(self, st):
        self.st = st
        self.i = 0

    def __iter__(self):
        return self

    def __next__(self):
        if self.i >= len(self.st.tasks):
            raise StopIteration
        r = self.st.need(self.i)
        self.i += 1
        if isinstance(r, _Failure):
            raise r.exc
        return r

    next = __next__


class _UnorderedIter(object):
    def __init__(self, st):
        self.st = st
        self.i = 0

    def __iter__(self):
        return self

    def __next__(self):
        if self.i >= len(self.st.tasks):
            raise StopIteration
        t = self.st.perm[self.i]
        r = self.st.need(t)
        self.i += 1
        if isinstance(r, _Failure):
            raise r.exc
        return r

    next = __next__


class _AsyncResult(object):
    def __init__(self, st, callback, error_callback, single):
        self.st, self.cb, self.ecb, self.single = st, callback, error_callback, single
        self.done = False
        self.value = None
        self.failure = None

    def _complete(self):
        if self.done:
            return
        self.st.run_all()
        self.done = True
        for t in self.st.perm:
            if isinstance(self.st.results[t], _Failure):
                self.failure = self.st.results[t]
                break
        if self.failure is not None:
            if self.ecb is not None:
                self.ecb(self.failure.exc)
            return
        vals = [self.st.results[t] for t in range(len(self.st.tasks))]
        self.value = vals[0] if self.single else vals
        if self.cb is not None:
            self.cb(self.value)

    def get(self, timeout=None):
        self._complete()
        if self.failure is not None:
            raise self.failure.exc
        return self.value

    def wait(self, timeout=None):
        self._complete()

    def ready(self):
        return self.done

    def successful(self):
        if not self.done:
            raise ValueError("not ready")
        return self.failure is None


class FakePool(object):
    flavor = "mp"

    def __init__(self, *a, **k):
        if ACTIVE is None:
            raise HarnessError("controlled pool used without a controller")
        self.ctl = ACTIVE
        self.ctl.pools_created += 1
        self.closed = False
        procs = a[0] if a else k.get("processes", k.get("nodes", k.get("ncpus")))
        if procs is not None and not isinstance(procs, bool) and self.flavor == "mp":
            # the standard library refuses a pool without workers (and a non-integral size)
            if not isinstance(procs, int) and not hasattr(procs, "__index__"):
                raise TypeError("processes must be an integer")
            if int(procs) < 1:
                raise ValueError("Number of processes must be at least 1")
        self._processes = int(procs) if procs else self.ctl.nworkers
        self.ncpus = self.nodes = self._processes          # pathos spellings

    # --- helpers
    def _start(self, kind, func, tasks):
        if self.closed:
            raise ValueError("Pool not running")
        # a pool object that the code keeps alive across operations is driven by the controller in force NOW
        if ACTIVE is not None:
            self.ctl = ACTIVE
        if self.ctl.boundary:
            # the function itself must be transferable to a worker
            if self.flavor == "pathos":
                import dill
                dill.dumps(func)
            else:
                pickle.dumps(func)
        tasks = list(tasks)
        ci, perm, mode = self.ctl.schedule_for(kind, len(tasks), self.flavor)
        from . import audit as _audit
        self.ctl.call_starts[ci] = _audit.mark()
        st = _CallState(self.ctl, ci, func, tasks, perm, self.flavor)
        return st, mode

    def _tasks(self, iterables):
        if len(iterables) == 1:
            return list(iterables[0])
        return [_Star(a) for a in zip(*iterables)]

    # --- multiprocessing.Pool API
    def map(self, func, *iterables, **kw):
        st, mode = self._start("map", func, self._tasks(iterables))
        st.run_all()
        first_fail = None
        for t in st.perm:
            if isinstance(st.results[t], _Failure):
                first_fail = st.results[t]
                break
        if first_fail is not None:
            raise first_fail.exc
        return [st.results[t] for t in range(len(st.tasks))]

    def imap(self, func, *iterables, **kw):
        st, mode = self._start("imap", func, self._tasks(iterables))
        if mode == "eager":
            st.run_all()
        return _OrderedIter(st)

    def imap_unordered(self, func, *iterables, **kw):
        st, mode = self._start("imap_unordered", func, self._tasks(iterables))
        if mode == "eager":
            st.run_all()
        return _UnorderedIter(st)

    def starmap(self, func, iterable, **kw):
        return self.map(func, *zip(*list(iterable)))

    def apply(self, func, args=(), kwds={}):
        return self.apply_async(func, args, kwds).get()

    # asynchronous calls: the whole call completes (and its callback fires) either at submission ("eager":
    # the workers are faster than the parent) or when the parent first waits for it ("lazy": the parent
    # runs ahead; a later eager call then completes - and calls back - BEFORE this one)
    def map_async(self, func, iterable, chunksize=None, callback=None, error_callback=None):
        st, mode = self._start("map_async", func, list(iterable))
        res = _AsyncResult(st, callback, error_callback, single=False)
        self.__dict__.setdefault("_pending", []).append(res)
        if mode == "eager":
            res._complete()
        return res

    def starmap_async(self, func, iterable, chunksize=None, callback=None, error_callback=None):
        st, mode = self._start("map_async", func, [_Star(tuple(a)) for a in iterable])
        res = _AsyncResult(st, callback, error_callback, single=False)
        if mode == "eager":
            res._complete()
        return res

    def apply_async(self, func, args=(), kwds={}, callback=None, error_callback=None):
        if kwds:
            import functools
            func = functools.partial(func, **kwds)
        st, mode = self._start("map_async", func, [_Star(tuple(args))])
        res = _AsyncResult(st, callback, error_callback, single=True)
        if mode == "eager":
            res._complete()
        return res

    # pathos spellings
    uimap = imap_unordered

    def amap(self, func, *iterables, **kw):
        res = self.map(func, *iterables)

        class _R(object):
            def get(self, timeout=None):
                return res

            def ready(self):
                return True
        return _R()

    def close(self):
        self.closed = True

    def terminate(self):
        self.closed = True

    def join(self):
        # every outstanding asynchronous call completes before join() returns
        for r in list(getattr(self, "_pending", [])):
            r._complete()

    def clear(self):
        pass

    def restart(self, force=False):
        self.closed = False

    def __enter__(self):
        return self

    def __exit__(self, *a):
        self.terminate()
        return False


class FakePathosPool(FakePool):
    flavor = "pathos"

    def __exit__(self, *a):
        return False


def _factories():
    """Known real pool factories (captured once, before patching)."""
    if _ORIG:
        return _ORIG
    _ORIG["mp.Pool"] = multiprocessing.Pool
    _ORIG["mp.pool.Pool"] = multiprocessing.pool.Pool
    try:
        import pathos.multiprocessing as pm
        _ORIG["pathos.ProcessingPool"] = pm.ProcessingPool
        _ORIG["pathos.ProcessPool"] = pm.ProcessPool
        import pathos.pools as pp
        _ORIG["pathos.pools.ProcessPool"] = pp.ProcessPool
        import multiprocess
        _ORIG["multiprocess.Pool"] = multiprocess.Pool
    except Exception:
        pass
    return _ORIG


def install():
    """Rebind every pool factory reachable from amr_kitchen to the controlled pool."""
    orig = _factories()
    mp_ids = {id(orig[k]) for k in ("mp.Pool", "mp.pool.Pool", "multiprocess.Pool") if k in orig}
    pathos_ids = {id(v) for k, v in orig.items() if k.startswith("pathos")}
    multiprocessing.Pool = FakePool
    try:
        import multiprocess
        multiprocess.Pool = FakePool
    except Exception:
        pass
    for name, mod in list(sys.modules.items()):
        if mod is None or not (name == "amr_kitchen" or name.startswith("amr_kitchen.")):
            continue
        for attr, val in list(vars(mod).items()):
            try:
                if id(val) in mp_ids:
                    setattr(mod, attr, FakePool)
                elif id(val) in pathos_ids:
                    setattr(mod, attr, FakePathosPool)
                elif getattr(val, "__func__", None) is getattr(orig["mp.Pool"], "__func__", object()):
                    setattr(mod, attr, FakePool)
            except Exception:
                pass


class controlled(object):
    """with controlled(plan) as ctl: <run a tool>"""

    def __init__(self, plan=None, default_mode="lazy", boundary=True, nworkers=None):
        self.ctl = Controller(plan, default_mode, boundary, nworkers)

    def __enter__(self):
        global ACTIVE
        install()
        self.prev = ACTIVE
        ACTIVE = self.ctl
        return self.ctl

    def __exit__(self, *a):
        global ACTIVE
        ACTIVE = self.prev
        return False


def alternatives(n, modes=("lazy", "eager"), kind="imap"):
    """Every schedule of one pool call with n tasks (n <= 4 exhaustive)."""
    perms = list(itertools.permutations(range(n)))
    if kind == "map":
        modes = ("eager",)
    for p in perms:
        for m in modes:
            yield (p, m)
