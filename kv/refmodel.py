"""Reference model of the AMReX plotfile format (independent of amr_kitchen).

* descriptor (JSON-able dict)  -> RefPlot (in-memory contents) + strict writer
* independent reader           -> ParsedPlot (what a directory says)
* pure operations on RefPlot   (strain, combine, covering grid, integral, ...)

Nothing here imports amr_kitchen.
"""
import os
import re
import itertools
import numpy as np

FAB_PREFIX = "FAB ((8, (64 11 52 0 1 12 0 1023)),(8, (8 7 6 5 4 3 2 1)))"


def g17(x):
    """AMReX writes doubles with 17 significant digits."""
    return "%.17g" % x


def tup(v):
    return "(" + ",".join(str(int(a)) for a in v) + ")"


def boxstr(lo, hi):
    return "(%s %s %s)" % (tup(lo), tup(hi), tup([0] * len(lo)))


# --------------------------------------------------------------------------------------
# payloads
# --------------------------------------------------------------------------------------
HOSTILE_BITS = [0x7ff8000000000000,   # quiet NaN
                0x7ff8000000000123,   # NaN with payload
                0x7ff0000000000000,   # +inf
                0xfff0000000000000,   # -inf
                0x8000000000000000,   # -0.0
                0x0000000000000001,   # smallest denormal
                0x7e37e43c8800759c,   # 1e300
                0x01a56e1fc2f8f359]   # 1e-300


def coded(lv, f, idx, seed=0):
    """Injective code of (level, field, i, j, k): no two cells of a plotfile are equal."""
    i = idx[0]
    j = idx[1]
    k = idx[2] if len(idx) > 2 else 0
    c = (((lv * 8 + f) * 128 + k) * 128 + j) * 128 + i
    return c.astype(float) + 0.25 + (seed % 7) * 0.0078125


def gen_field(kind, lv, f, idx, centres, seed=0):
    """Values of one field on one box.
    kind: 'coded' | 'signed' | 'affine<d>' | 'const<d>' | 'affidx' | 'one' | 'pos'
    idx: list of ndims index arrays (global cell indices at level lv, broadcastable)
    centres: list of ndims arrays of physical cell-centre coordinates
    """
    shape = np.broadcast(*idx).shape
    if kind == 'coded':
        return np.broadcast_to(coded(lv, f, idx, seed), shape).copy()
    if kind == 'signed':
        v = coded(lv, f, idx, seed)
        s = idx[0]
        for a in idx[1:]:
            s = s + a
        return np.broadcast_to(np.where(s % 2 == 0, v, -v), shape).copy()
    if kind.startswith('affine'):
        d = int(kind[6:])
        a, b = 3.0 + f, 2.0 + 0.5 * f
        return np.broadcast_to(a + b * centres[d], shape).copy()
    if kind.startswith('const'):
        d = int(kind[5:])
        idx2 = [np.zeros_like(a) if n == d else a for n, a in enumerate(idx)]
        return np.broadcast_to(coded(lv, f, idx2, seed), shape).copy()
    if kind.startswith('hconst'):
        d = int(kind[6:])
        idx2 = [np.zeros_like(a) if n == d else a for n, a in enumerate(idx)]
        v = np.broadcast_to(coded(lv, f, idx2, seed), shape).copy()
        s_ = None
        for n, a in enumerate(idx):
            if n != d:
                s_ = a if s_ is None else s_ + 3 * a
        s_ = np.broadcast_to(s_, shape)
        for k_, bits_ in enumerate(HOSTILE_BITS[2:]):       # +inf, -inf, -0.0, denormal, 1e300, 1e-300
            v[s_ % 11 == k_ + 1] = np.array([bits_], dtype=np.uint64).view(np.float64)[0]
        return v
    if kind == 'affidx':
        v = 1000.0 * (lv + 1) + 100.0 * f
        for n, a in enumerate(idx):
            v = v + (n + 1.0) * (2.0 ** n) * a
        return np.broadcast_to(v, shape).copy()
    if kind == 'zerofine':
        if lv == 0:
            return np.broadcast_to(coded(lv, f, idx, seed), shape).copy()
        z = np.zeros(shape)
        z[(idx[0] + idx[1]) % 2 == 1] = -0.0
        return z
    if kind == 'huge':
        # finite values beyond the single-precision range, both signs, no infinities
        v = coded(lv, f, idx, seed) * 1e300 / 4194304.0
        s_ = idx[0]
        for a in idx[1:]:
            s_ = s_ + a
        return np.broadcast_to(np.where(s_ % 2 == 0, v, -v), shape).copy()
    if kind == 'decay':
        # sign-alternating values whose magnitude DEcreases with the level: the coarsest level holds the extrema
        v = coded(0, f, idx, seed) / (16.0 ** lv)
        s_ = idx[0]
        for a in idx[1:]:
            s_ = s_ + a
        return np.broadcast_to(np.where(s_ % 2 == 0, v, -v), shape).copy()
    if kind == 'boxcancel':
        # constant per box, chosen so that the box sums cancel catastrophically: any regrouping of the
        # additions over boxes changes the floating-point result
        lo = [int(np.min(a)) for a in idx]
        c = [1e16, 1.0, -1e16, 1.0, 3.0, -1e16, 1e16, 7.0][(lo[0] // 2 + 3 * (lo[1] // 2) + 5 * (lo[2] // 2 if len(lo) > 2 else 0) + lv) % 8]
        return np.full(shape, c)
    if kind in ('nanlv0', 'nanlv1'):
        # finite signed values; one NaN cell in every box of level 0 only (nanlv0) / of the finer levels only (nanlv1)
        v = gen_field('signed', lv, f, idx, centres, seed)
        if (lv == 0) == (kind == 'nanlv0'):
            v.reshape(-1)[0] = np.nan
        return v
    if kind == 'one':
        return np.ones(shape)
    if kind == 'pos':
        # positive, smooth-ish, distinct per level/field
        v = 1.0 + 0.125 * f + 0.5 * lv
        for n, a in enumerate(idx):
            v = v + (a % 5) * 0.0625 * (n + 1)
        return np.broadcast_to(v, shape).copy()
    if kind == 'frac':
        # volume-fraction like values in (0,1]
        s = idx[0]
        for a in idx[1:]:
            s = s + 2 * a
        return np.broadcast_to(((s % 4) + 1) / 4.0, shape).copy()
    raise ValueError("unknown payload kind %r" % kind)


def apply_hostile(arr, f, nan=True):
    """Overwrite fixed cells of a box/field with non-finite / denormal / huge values."""
    flat = arr.reshape(-1, order='F')
    n = flat.size
    bits = flat.view(np.uint64)
    pats = HOSTILE_BITS if nan else HOSTILE_BITS[2:]
    m = min(n, len(pats))
    for c in range(m):
        bits[(c + f) % n] = pats[c]
    return flat.reshape(arr.shape, order='F')


# --------------------------------------------------------------------------------------
# RefPlot
# --------------------------------------------------------------------------------------
class RefPlot(object):
    """In-memory contents of a plotfile."""

    def __init__(self, ndims, fields, time, geo_lo, geo_hi, dx, domain, boxes, data,
                 step=20, mins=None, maxs=None):
        self.ndims = ndims
        self.fields = list(fields)
        self.time = time
        self.geo_lo = list(geo_lo)
        self.geo_hi = list(geo_hi)
        self.dx = [list(d) for d in dx]            # per level
        self.domain = [list(d) for d in domain]    # cells per level
        self.boxes = boxes                          # per level list of (lo tuple, hi tuple)
        self.data = data                            # per level list of arrays (nx,ny[,nz],nf)
        self.step = step
        self.mins = mins                            # optional per level list of token lists
        self.maxs = maxs

    @property
    def nlevels(self):
        return len(self.boxes)

    def phys_box(self, lv, b):
        lo, hi = self.boxes[lv][b]
        return [[self.geo_lo[d] + lo[d] * self.dx[lv][d],
                 self.geo_lo[d] + (hi[d] + 1) * self.dx[lv][d]] for d in range(self.ndims)]

    def extrema(self, lv, b):
        a = self.data[lv][b]
        ax = tuple(range(self.ndims))
        with np.errstate(all='ignore'):
            return np.min(a, axis=ax), np.max(a, axis=ax)

    # ---- pure operations -------------------------------------------------------------
    def strain(self, names, limit=None):
        if limit is None:
            limit = self.nlevels - 1
        if list(names) == ['all']:
            keep = list(range(len(self.fields)))
        else:
            keep = [self.fields.index(n) for n in names if n in self.fields]
        return RefPlot(self.ndims, [self.fields[i] for i in keep], self.time, self.geo_lo,
                       self.geo_hi, self.dx[:limit + 1], self.domain[:limit + 1],
                       self.boxes[:limit + 1],
                       [[a[..., keep] for a in lvd] for lvd in self.data[:limit + 1]],
                       step=self.step)

    def combine(self, other, vars1=None, vars2=None):
        v1 = list(self.fields) if vars1 is None else [v for v in vars1 if v in self.fields]
        v2 = list(other.fields) if vars2 is None else [v for v in vars2 if v in other.fields]
        v2 = [v for v in v2 if v not in v1]
        i1 = [self.fields.index(v) for v in v1]
        i2 = [other.fields.index(v) for v in v2]
        data = []
        for lv in range(self.nlevels):
            lvd = []
            for b, (lo, hi) in enumerate(self.boxes[lv]):
                b2 = other.boxes[lv].index((lo, hi))
                lvd.append(np.concatenate([self.data[lv][b][..., i1],
                                           other.data[lv][b2][..., i2]], axis=-1))
            data.append(lvd)
        return RefPlot(self.ndims, v1 + v2, self.time, self.geo_lo, self.geo_hi, self.dx,
                       self.domain, self.boxes, data, step=self.step)

    def with_fields(self, names, arrays_fn):
        """New RefPlot on the same mesh; arrays_fn(lv, b) -> array (..., len(names))."""
        data = [[arrays_fn(lv, b) for b in range(len(self.boxes[lv]))]
                for lv in range(self.nlevels)]
        return RefPlot(self.ndims, names, self.time, self.geo_lo, self.geo_hi, self.dx,
                       self.domain, self.boxes, data, step=self.step)

    def covering(self, limit=None, field=None, with_level=False):
        """Finest-level covering grid (coarser cells replicated). Returns array of shape
        domain[limit] (+ nfields) and optionally the level map."""
        if limit is None:
            limit = self.nlevels - 1
        shape = tuple(self.domain[limit])
        nf = len(self.fields)
        out = np.full(shape + (nf,), np.nan)
        lvl = np.full(shape, -1, dtype=int)
        for lv in range(limit + 1):
            r = 2 ** (limit - lv)
            for (lo, hi), a in zip(self.boxes[lv], self.data[lv]):
                e = a
                for d in range(self.ndims):
                    e = np.repeat(e, r, axis=d)
                sl = tuple(slice(lo[d] * r, (hi[d] + 1) * r) for d in range(self.ndims))
                out[sl] = e
                lvl[sl] = lv
        if field is not None:
            out = out[..., field]
        return (out, lvl) if with_level else out

    def covered_mask(self, lv, b, limit):
        """Boolean mask of the cells of box b at level lv covered by level lv+1 (<= limit)."""
        lo, hi = self.boxes[lv][b]
        shape = tuple(hi[d] - lo[d] + 1 for d in range(self.ndims))
        m = np.zeros(shape, dtype=bool)
        if lv + 1 > limit or lv + 1 >= self.nlevels:
            return m
        for (flo, fhi) in self.boxes[lv + 1]:
            clo = [flo[d] // 2 for d in range(self.ndims)]
            chi = [fhi[d] // 2 for d in range(self.ndims)]
            sl = []
            empty = False
            for d in range(self.ndims):
                a = max(clo[d], lo[d])
                z = min(chi[d], hi[d])
                if a > z:
                    empty = True
                    break
                sl.append(slice(a - lo[d], z - lo[d] + 1))
            if not empty:
                m[tuple(sl)] = True
        return m

    def integral(self, field, limit=None, volfrac=None):
        """sum over cells not covered by a finer selected level of v*dV(*volfrac).
        Returns (value, sum of |terms|)."""
        if limit is None:
            limit = self.nlevels - 1
        fi = self.fields.index(field)
        vi = self.fields.index(volfrac) if volfrac is not None else None
        tot = 0.0
        mag = 0.0
        for lv in range(limit + 1):
            dV = float(np.prod(self.dx[lv]))
            for b, a in enumerate(self.data[lv]):
                m = ~self.covered_mask(lv, b, limit)
                v = a[..., fi][m]
                if vi is not None:
                    v = v * a[..., vi][m]
                tot += dV * float(np.sum(v))
                mag += dV * float(np.sum(np.abs(v)))
        return tot, mag


# --------------------------------------------------------------------------------------
# descriptor -> RefPlot
# --------------------------------------------------------------------------------------
def default_layout(nboxes):
    return {"files": [list(range(nboxes))], "nums": [0]}


def normalise_desc(desc):
    d = dict(desc)
    nd = d["ndims"]
    d.setdefault("origin", [0.0] * nd)
    d.setdefault("dx0", [0.25] * nd)
    d.setdefault("time", 0.5)
    d.setdefault("fields", ["a", "b"])
    d.setdefault("payload", "coded")
    d.setdefault("extra_ratio", 0)
    d.setdefault("step", 20)
    d.setdefault("seed", 0)
    d.setdefault("levelprefix", "Level_")      # AMReX's levelPrefix argument: the level directories may have another name
    if "layout" not in d or d["layout"] is None:
        d["layout"] = [None] * len(d["levels"])
    d["layout"] = [default_layout(len(bx)) if lay is None else lay
                   for lay, bx in zip(d["layout"], d["levels"])]
    return d


def refplot_from_desc(desc):
    d = normalise_desc(desc)
    nd = d["ndims"]
    nlev = len(d["levels"])
    dx = [[d["dx0"][k] / 2 ** lv for k in range(nd)] for lv in range(nlev)]
    if d.get("dx_digits"):
        # cell sizes as a code writes them that prints fewer than 17 significant digits: each level's value is correctly rounded to
        # `dx_digits` digits, so the quotient of two levels is no longer exactly 2 (0.333333333333 / 0.166666666667 = 1.99999999999)
        dx = [[float("%.*g" % (int(d["dx_digits"]), v)) for v in row] for row in dx]
    domain = [[d["domain"][k] * 2 ** lv for k in range(nd)] for lv in range(nlev)]
    geo_lo = list(d["origin"])
    geo_hi = [d["origin"][k] + d["dx0"][k] * d["domain"][k] for k in range(nd)]
    fields = d["fields"]
    payload = d["payload"]
    hostile = False
    if isinstance(payload, str):
        if payload in ('hostile', 'hostile_nonan'):
            hostile = True
            kinds = ['coded'] * len(fields)
        else:
            kinds = [payload] * len(fields)
    else:
        kinds = list(payload)
    boxes = []
    data = []
    for lv in range(nlev):
        lvb = []
        lvd = []
        for bnum, (lo, hi) in enumerate(d["levels"][lv]):
            lo = tuple(int(a) for a in lo)
            hi = tuple(int(a) for a in hi)
            lvb.append((lo, hi))
            shape = tuple(hi[k] - lo[k] + 1 for k in range(nd))
            idx = np.meshgrid(*[np.arange(lo[k], hi[k] + 1) for k in range(nd)], indexing='ij')
            cen = [geo_lo[k] + (idx[k] + 0.5) * dx[lv][k] for k in range(nd)]
            arr = np.empty(shape + (len(fields),))
            for f, kind in enumerate(kinds):
                # per-field modifiers: "<kind>*<factor>" scales, "<kind>+hostile" overlays the non-finite / denormal patterns
                scale, overlay, interior, negzero = None, False, False, False
                if kind.endswith("+negzero"):
                    kind, negzero = kind[:-8], True          # a few cells hold -0.0 (finite, equal to 0.0, other bits)
                if kind.endswith("+nfinterior"):
                    kind, interior = kind[:-11], True
                if kind.endswith("+hostile"):
                    kind, overlay = kind[:-8], True
                if "*" in kind:
                    kind, scale = kind.split("*")[0], float(kind.split("*")[1])
                a = gen_field(kind, lv, f, idx, cen, d["seed"])
                if scale is not None:
                    a = a * scale
                if negzero:
                    flat_ = a.reshape(-1)
                    flat_[[1 % flat_.size, (5 + f) % flat_.size]] = -0.0
                    a = flat_.reshape(a.shape)
                if overlay:
                    a = apply_hostile(a, f, nan=True)
                if interior and all(n_ >= 4 for n_ in shape):
                    # non-finite values in INTERIOR cells (one cell away from every face of the box)
                    a[(1,) * nd] = np.nan
                    a[(2,) + (1,) * (nd - 1)] = np.inf
                    a[(1,) * (nd - 1) + (2,)] = -np.inf
                if kind == 'boxcancel':
                    # box sums 1e16, 1, -1e16, 1, ... in box order (exact: cell counts are powers of two or small):
                    # sequential accumulation gives another result than any regrouping of the boxes
                    a = np.full(shape, [1e16, 1.0, -1e16, 1.0][bnum % 4] / float(np.prod(shape)))
                if hostile:
                    a = apply_hostile(a, f, nan=(payload == 'hostile'))
                arr[..., f] = a
            lvd.append(arr)
        boxes.append(lvb)
        data.append(lvd)
    return RefPlot(nd, fields, d["time"], geo_lo, geo_hi, dx, domain, boxes, data, step=d["step"])


def fmt_minmax(v):
    return "%.16e" % v


def write_plotfile(desc, path, ref=None):
    """Strict writer: descriptor -> directory in the format AMReX itself writes."""
    d = normalise_desc(desc)
    if ref is None:
        ref = refplot_from_desc(d)
    nd = ref.ndims
    nlev = ref.nlevels
    os.makedirs(path)
    # an index space that does not start at 0 (AMReX allows any domain box): the descriptor's `index_shift` (level-0 cells,
    # may be negative) is added to every index that is WRITTEN - domain line, level headers, FAB headers; the in-memory
    # reference stays 0-based (box data, the covering relation between levels and physical bounds do not depend on it)
    sh0 = list(d.get("index_shift") or [0] * nd)

    def shifted(lo, hi, lv):
        return boxstr([a + s_ * 2 ** lv for a, s_ in zip(lo, sh0)], [a + s_ * 2 ** lv for a, s_ in zip(hi, sh0)])
    lines = ["HyperCLaw-V1.1", str(len(ref.fields))]
    lines += list(ref.fields)
    lines.append(str(nd))
    lines.append(d.get("time_text") or g17(ref.time))
    lines.append(str(nlev - 1))
    lines.append(" ".join(g17(v) for v in ref.geo_lo) + " ")
    lines.append(" ".join(g17(v) for v in ref.geo_hi) + " ")
    nratio = (nlev - 1) + d["extra_ratio"]
    lines.append("".join("2 " for _ in range(nratio)))
    lines.append(" ".join(shifted([0] * nd, [n - 1 for n in ref.domain[lv]], lv) for lv in range(nlev)) + " ")
    lines.append(" ".join(str(d["step"]) for _ in range(nlev)) + " ")
    for lv in range(nlev):
        lines.append(" ".join(g17(v) for v in ref.dx[lv]) + " ")
    lines.append("0")
    lines.append("0")
    for lv in range(nlev):
        lines.append("%d %d %s" % (lv, len(ref.boxes[lv]), d.get("time_text") or g17(ref.time)))
        lines.append(str(d["step"]))
        for b in range(len(ref.boxes[lv])):
            for (lo, hi) in ref.phys_box(lv, b):
                lines.append("%s %s" % (g17(lo), g17(hi)))
        lines.append("%s%d/Cell" % (d["levelprefix"], lv))
    with open(os.path.join(path, "Header"), "w") as f:
        f.write("\n".join(lines) + "\n")
    for lv in range(nlev):
        ldir = os.path.join(path, "%s%d" % (d["levelprefix"], lv))
        os.makedirs(ldir)
        lay = d["layout"][lv]
        nb = len(ref.boxes[lv])
        files = [None] * nb
        offsets = [None] * nb
        for flist, num in zip(lay["files"], lay["nums"]):
            fname = "Cell_D_%05d" % num
            with open(os.path.join(ldir, fname), "wb") as bf:
                for b in flist:
                    lo, hi = ref.boxes[lv][b]
                    files[b] = fname
                    offsets[b] = bf.tell()
                    hdr = "%s%s %d\n" % (FAB_PREFIX, shifted(lo, hi, lv), len(ref.fields))
                    bf.write(hdr.encode("ascii"))
                    bf.write(np.ascontiguousarray(ref.data[lv][b]).flatten(order="F").tobytes())
        assert None not in files, "layout must place every box"
        ch = ["1", "1", str(len(ref.fields)), "0", "(%d 0" % nb]
        for (lo, hi) in ref.boxes[lv]:
            ch.append(shifted(lo, hi, lv))
        ch.append(")")
        ch.append(str(nb))
        for b in range(nb):
            ch.append("FabOnDisk: %s %d" % (files[b], offsets[b]))
        ch.append("")
        ch.append("%d,%d" % (nb, len(ref.fields)))
        for b in range(nb):
            mn, _ = ref.extrema(lv, b)
            ch.append("".join(fmt_minmax(v) + "," for v in mn))
        ch.append("")
        ch.append("%d,%d" % (nb, len(ref.fields)))
        for b in range(nb):
            _, mx = ref.extrema(lv, b)
            ch.append("".join(fmt_minmax(v) + "," for v in mx))
        ch.append("")
        with open(os.path.join(ldir, "Cell_H"), "w") as f:
            f.write("\n".join(ch) + "\n")
        if d.get("decoy"):
            # a leftover binary file that the level header does NOT list (an earlier write into the same directory, a backup
            # copy): a FAB with box 0's index range and other values, and an empty file
            lo, hi = ref.boxes[lv][0]
            a = -7.0 - ref.data[lv][0]
            with open(os.path.join(ldir, "Cell_D_00077"), "wb") as f:
                f.write((FAB_PREFIX + shifted(lo, hi, lv) + " %d\n" % a.shape[-1]).encode() + np.asfortranarray(a).tobytes(order="F"))
            open(os.path.join(ldir, "Cell_D_00078"), "wb").close()
    return ref


# --------------------------------------------------------------------------------------
# independent reader
# --------------------------------------------------------------------------------------
class FormatError(Exception):
    pass


_box_re = re.compile(r"\(\(([-\d,\s]+)\)\s*\(([-\d,\s]+)\)\s*\(([-\d,\s]+)\)\)")
_fab_re = re.compile(rb"^FAB \(\(8, \(64 11 52 0 1 12 0 1023\)\),\(8, \(8 7 6 5 4 3 2 1\)\)\)"
                     rb"\(\(([-\d,]+)\) \(([-\d,]+)\) \(([-\d,]+)\)\) (\d+)\n$")


def _ints(s):
    return tuple(int(a) for a in s.replace(" ", "").split(","))


class ParsedLevel(object):
    pass


class ParsedPlot(object):
    """What a plotfile directory states, parsed by a tokenizer independent of the package."""

    def __init__(self, path, limit=None, need_minmax=True, strict_tail=True):
        self.path = path
        with open(os.path.join(path, "Header")) as f:
            L = f.read().split("\n")
        p = 0

        def nxt():
            nonlocal p
            if p >= len(L):
                raise FormatError("Header ends early")
            s = L[p]
            p += 1
            return s
        self.version = nxt()
        nf = int(nxt())
        self.fields = [nxt() for _ in range(nf)]
        self.ndims = int(nxt())
        self.time_text = nxt().strip()
        self.time = float(self.time_text)
        self.finest = int(nxt())
        self.geo_lo = [float(a) for a in nxt().split()]
        self.geo_hi = [float(a) for a in nxt().split()]
        self.ratios = [int(a) for a in nxt().split()]
        doms = _box_re.findall(nxt())
        self.domain = []
        self.index_lo = []          # first cell of the index space per level; every index read is reported relative to it
        for (lo, hi, _t) in doms:
            lo, hi = _ints(lo), _ints(hi)
            self.index_lo.append(list(lo))
            self.domain.append([h - l + 1 for l, h in zip(lo, hi)])
        self.steps = [int(a) for a in nxt().split()]
        self.dx = [[float(a) for a in nxt().split()] for _ in range(self.finest + 1)]
        self.coord_sys = int(nxt())
        self.bwidth = int(nxt())
        if len(self.geo_lo) != self.ndims or len(self.geo_hi) != self.ndims:
            raise FormatError("geometry dimensionality")
        if len(self.domain) != self.finest + 1:
            raise FormatError("domain boxes count %d != levels %d" % (len(self.domain), self.finest + 1))
        if len(self.steps) != self.finest + 1:
            raise FormatError("step numbers count")
        if len(self.ratios) < self.finest:
            raise FormatError("refinement ratios count")
        for dxl in self.dx:
            if len(dxl) != self.ndims:
                raise FormatError("dx dimensionality")
        self.levels = []
        nread = self.finest + 1 if limit is None else limit + 1
        for lv in range(self.finest + 1):
            t = nxt().split()
            if len(t) != 3 or int(t[0]) != lv:
                raise FormatError("level line %r" % t)
            pl = ParsedLevel()
            pl.nboxes = int(t[1])
            pl.time_text = t[2]
            pl.step = int(nxt())
            pl.phys = []
            for _ in range(pl.nboxes):
                bx = []
                for _d in range(self.ndims):
                    a = nxt().split()
                    if len(a) != 2:
                        raise FormatError("box bound line %r" % a)
                    bx.append([float(a[0]), float(a[1])])
                pl.phys.append(bx)
            pl.cell_path = nxt().strip()
            self.levels.append(pl)
        rest = [s for s in L[p:] if s.strip() != ""]
        if rest and strict_tail:
            raise FormatError("trailing text in Header: %r" % rest[:2])
        for lv in range(nread):
            self._read_cell_h(lv, need_minmax)
        self.nread = nread

    def _read_cell_h(self, lv, need_minmax):
        pl = self.levels[lv]
        ldir = os.path.join(self.path, pl.cell_path.split("/")[0])
        pl.dir = ldir
        with open(os.path.join(ldir, os.path.basename(pl.cell_path) + "_H")) as f:
            L = f.read().split("\n")
        p = 0

        def nxt():
            nonlocal p
            if p >= len(L):
                raise FormatError("Cell_H ends early (level %d)" % lv)
            s = L[p]
            p += 1
            return s
        if nxt().strip() != "1" or nxt().strip() != "1":
            raise FormatError("Cell_H version/how lines")
        pl.ncomp = int(nxt())
        if int(nxt()) != 0:
            raise FormatError("Cell_H ghost line")
        t = nxt().split()
        if not t[0].startswith("("):
            raise FormatError("Cell_H box array opening")
        nb = int(t[0][1:])
        pl.index = []
        for _ in range(nb):
            m = _box_re.match(nxt().strip())
            if not m:
                raise FormatError("Cell_H index line")
            il = self.index_lo[lv] if lv < len(self.index_lo) else [0] * self.ndims
            pl.index.append((tuple(a - o for a, o in zip(_ints(m.group(1)), il)), tuple(a - o for a, o in zip(_ints(m.group(2)), il))))
        if nxt().strip() != ")":
            raise FormatError("Cell_H box array closing")
        if int(nxt()) != nb:
            raise FormatError("Cell_H FabOnDisk count")
        pl.files = []
        pl.offsets = []
        for _ in range(nb):
            t = nxt().split()
            if len(t) != 3 or t[0] != "FabOnDisk:":
                raise FormatError("FabOnDisk line %r" % t)
            pl.files.append(t[1])
            pl.offsets.append(int(t[2]))
        pl.mins = pl.maxs = None
        try:
            if nxt().strip() != "":
                raise FormatError("expected blank before min table")
            pl.mins = self._table(nxt, nb, pl.ncomp)
            if nxt().strip() != "":
                raise FormatError("expected blank before max table")
            pl.maxs = self._table(nxt, nb, pl.ncomp)
        except FormatError:
            if need_minmax:
                raise
        if pl.nboxes != nb:
            raise FormatError("level %d: Header says %d boxes, Cell_H %d" % (lv, pl.nboxes, nb))

    @staticmethod
    def _table(nxt, nb, ncomp):
        t = nxt().strip().split(",")
        if len(t) != 2 or int(t[0]) != nb or int(t[1]) != ncomp:
            raise FormatError("min/max table header %r" % t)
        rows = []
        for _ in range(nb):
            s = nxt().strip()
            if not s.endswith(","):
                raise FormatError("min/max row has no trailing comma")
            toks = s[:-1].split(",")
            if len(toks) != ncomp:
                raise FormatError("min/max row length %d != %d" % (len(toks), ncomp))
            rows.append(toks)
        return rows

    # ---- binary access ----------------------------------------------------------------
    def fab_at(self, lv, b):
        """Return (lo, hi, ncomp, array) of the FAB found at the recorded offset."""
        pl = self.levels[lv]
        with open(os.path.join(pl.dir, pl.files[b]), "rb") as f:
            f.seek(pl.offsets[b])
            h = f.readline()
            m = _fab_re.match(h)
            if not m:
                raise FormatError("no FAB header at offset %d of %s (level %d box %d): %r"
                                  % (pl.offsets[b], pl.files[b], lv, b, h[:80]))
            lo, hi, nc = _ints(m.group(1).decode()), _ints(m.group(2).decode()), int(m.group(4))
            il = self.index_lo[lv] if lv < len(getattr(self, "index_lo", [])) else [0] * len(lo)
            lo, hi = tuple(a - o for a, o in zip(lo, il)), tuple(a - o for a, o in zip(hi, il))
            shape = tuple(hi[d] - lo[d] + 1 for d in range(len(lo)))
            n = int(np.prod(shape)) * nc
            raw = f.read(n * 8)
            if len(raw) != n * 8:
                raise FormatError("short FAB payload (level %d box %d)" % (lv, b))
            arr = np.frombuffer(raw, dtype='<f8').reshape(shape + (nc,), order='F')
        return lo, hi, nc, arr

    def scan_file(self, lv, fname):
        """Sequential scan of a binary file: list of (offset, lo, hi, ncomp, end)."""
        pl = self.levels[lv]
        out = []
        with open(os.path.join(pl.dir, fname), "rb") as f:
            size = f.seek(0, 2)
            f.seek(0)
            while f.tell() < size:
                off = f.tell()
                h = f.readline()
                m = _fab_re.match(h)
                if not m:
                    raise FormatError("%s: no FAB header at %d" % (fname, off))
                lo, hi, nc = _ints(m.group(1).decode()), _ints(m.group(2).decode()), int(m.group(4))
                il = self.index_lo[lv] if lv < len(getattr(self, "index_lo", [])) else [0] * len(lo)
                lo, hi = tuple(a - o for a, o in zip(lo, il)), tuple(a - o for a, o in zip(hi, il))
                n = int(np.prod([hi[d] - lo[d] + 1 for d in range(len(lo))])) * nc * 8
                f.seek(n, 1)
                if f.tell() > size:
                    raise FormatError("%s: FAB at %d runs past end of file" % (fname, off))
                out.append((off, lo, hi, nc, f.tell()))
        return out

    def problems(self, check_minmax=True, coords=True):
        """Strict structural validation by the reference model; returns a list of strings."""
        P = []
        nd = self.ndims
        for lv in range(self.nread):
            pl = self.levels[lv]
            if pl.ncomp != len(self.fields):
                P.append("level %d: Cell_H ncomp %d != %d fields" % (lv, pl.ncomp, len(self.fields)))
            if len(set(pl.index)) != len(pl.index):
                P.append("level %d: duplicate index boxes" % lv)
            present = sorted(f for f in os.listdir(pl.dir) if f != "Cell_H")
            # (AMReX leaves unreferenced files of ranks that own no box at a level: extra files are fine)
            missing = sorted(set(pl.files) - set(present))
            if missing:
                P.append("level %d: referenced files missing on disk: %s" % (lv, missing[:5]))
            scans = {}
            for fn in set(pl.files):
                try:
                    scans[fn] = {s[0]: s for s in self.scan_file(lv, fn)}
                except (FormatError, OSError) as e:
                    P.append("level %d: %s" % (lv, e))
            for fn, sc in scans.items():
                refd = sorted(o for f, o in zip(pl.files, pl.offsets) if f == fn)
                if refd != sorted(sc):
                    P.append("level %d %s: FAB offsets on disk %s != referenced %s" % (lv, fn, sorted(sc), refd))
            for b in range(pl.nboxes):
                try:
                    lo, hi, nc, arr = self.fab_at(lv, b)
                except (FormatError, OSError) as e:
                    P.append(str(e))
                    continue
                if (lo, hi) != pl.index[b]:
                    P.append("level %d box %d: FAB range %s != index %s" % (lv, b, (lo, hi), pl.index[b]))
                if nc != pl.ncomp:
                    P.append("level %d box %d: FAB ncomp %d != %d" % (lv, b, nc, pl.ncomp))
                if len(lo) != nd:
                    P.append("level %d box %d: FAB dimensionality" % (lv, b))
                if coords:
                    for d in range(nd):
                        elo = self.geo_lo[d] + pl.index[b][0][d] * self.dx[lv][d]
                        ehi = self.geo_lo[d] + (pl.index[b][1][d] + 1) * self.dx[lv][d]
                        tol = 1e-9 * max(abs(self.dx[lv][d]), 1e-300)
                        if abs(pl.phys[b][d][0] - elo) > tol or abs(pl.phys[b][d][1] - ehi) > tol:
                            P.append("level %d box %d dim %d: bounds %s != expected (%r, %r)"
                                     % (lv, b, d, pl.phys[b][d], elo, ehi))
                if check_minmax and pl.mins is not None and nc == pl.ncomp:
                    ax = tuple(range(nd))
                    with np.errstate(all='ignore'):
                        mn, mx = np.min(arr, axis=ax), np.max(arr, axis=ax)
                    for c in range(nc):
                        for tok, v, nm in ((pl.mins[b][c], mn[c], "min"), (pl.maxs[b][c], mx[c], "max")):
                            try:
                                tv = float(tok)
                            except ValueError:
                                P.append("level %d box %d comp %d: %s token %r" % (lv, b, c, nm, tok))
                                continue
                            if not same_value(tv, float("%.16e" % v)) and not same_value(tv, v):
                                P.append("level %d box %d comp %d: %s %r != data %r" % (lv, b, c, nm, tok, v))
            for d in range(nd):
                if self.domain[lv][d] <= 0:
                    P.append("level %d dim %d: the domain has %d cells" % (lv, d, self.domain[lv][d]))
                    continue
                exp = (self.geo_hi[d] - self.geo_lo[d]) / self.domain[lv][d]
                if abs(exp - self.dx[lv][d]) > 1e-9 * abs(exp):
                    P.append("level %d dim %d: dx %r != extent/cells %r" % (lv, d, self.dx[lv][d], exp))
        return P

    def to_refplot(self):
        boxes = []
        data = []
        mins = []
        maxs = []
        for lv in range(self.nread):
            pl = self.levels[lv]
            boxes.append(list(pl.index))
            data.append([self.fab_at(lv, b)[3] for b in range(pl.nboxes)])
            mins.append(pl.mins)
            maxs.append(pl.maxs)
        return RefPlot(self.ndims, self.fields, self.time, self.geo_lo, self.geo_hi, self.dx[:self.nread],
                       self.domain[:self.nread], boxes, data, step=self.steps[0], mins=mins, maxs=maxs)


def same_value(a, b):
    """float equality with NaN == NaN and -0.0 == 0.0 (text round trips lose neither)."""
    if a != a and b != b:
        return True
    return a == b


def bits_equal(a, b):
    a = np.ascontiguousarray(a, dtype=np.float64)
    b = np.ascontiguousarray(b, dtype=np.float64)
    return a.shape == b.shape and np.array_equal(a.view(np.uint64), b.view(np.uint64))


def tree_digest(path):
    """sha1 over relative names and file bytes of a directory tree."""
    import hashlib
    h = hashlib.sha1()
    for root, dirs, files in sorted(os.walk(path)):
        dirs.sort()
        for fn in sorted(files):
            p = os.path.join(root, fn)
            h.update(os.path.relpath(p, path).encode())
            with open(p, "rb") as f:
                h.update(f.read())
    return h.hexdigest()
