"""Runner: shards a check's exhaustive case enumeration over OS processes, aggregates
coverage, classifies failures against known_findings.json, writes replay artefacts and the
evidence file, and implements the exit-code / VIOLATION-line contract."""
import os
import sys
import json
import time
import signal
import hashlib
import shutil
import tempfile
import importlib
import traceback
import multiprocessing

ROOT = os.path.dirname(os.path.dirname(os.path.abspath(__file__)))
EVIDENCE_DIR = os.environ.get("KV_EVIDENCE_DIR") or os.path.join(ROOT, "evidence")
REPLAY_DIR = os.environ.get("KV_REPLAY_DIR") or os.path.join(ROOT, "replay")
KNOWN_FILE = os.path.join(ROOT, "known_findings.json")
SCRATCH_BASE = "/dev/shm" if os.path.isdir("/dev/shm") and os.access("/dev/shm", os.W_OK) \
    else os.environ.get("TMPDIR", "/var/tmp")


def h64(obj):
    s = json.dumps(obj, sort_keys=True, default=str)
    return int.from_bytes(hashlib.blake2b(s.encode(), digest_size=8).digest(), "big")


class Rec(object):
    """Per-case recorder used by run_case implementations."""

    def __init__(self):
        self.keys = []        # (hash, nontrivial)
        self.trans = 0
        self.fails = []
        self.outcomes = set()
        self.samples = []
        self.extra = {}

    def exe(self, key, nontrivial=True, trans=1):
        self.keys.append((h64(key), bool(nontrivial)))
        self.trans += trans

    def fail(self, clause, sub, detail=""):
        if len(self.fails) < 200:
            self.fails.append({"clause": clause, "sub": sub, "detail": str(detail)[:600]})
        else:
            self.extra["fails_truncated"] = self.extra.get("fails_truncated", 0) + 1

    def outcome(self, digest):
        self.outcomes.add(digest if isinstance(digest, (str, int)) else h64(digest))

    def sample(self, obj):
        if len(self.samples) < 2:
            self.samples.append(obj)

    def count(self, name, n=1):
        self.extra[name] = self.extra.get(name, 0) + n

    def result(self):
        import numpy as np
        ks = np.array([k for k, _ in self.keys], dtype=np.uint64)
        nt = np.array([n for _, n in self.keys], dtype=bool)
        return {"keys": (ks, nt), "trans": self.trans, "fails": self.fails,
                "outcomes": list(self.outcomes), "samples": self.samples, "extra": self.extra}


# ----------------------------------------------------------------------------------------
_WORK = {}


class CaseTimeout(Exception):
    pass


def _alarm(signum, frame):
    raise CaseTimeout("case exceeded its time limit")


def _worker_init(modname, quiet, run_root=None):
    os.environ.setdefault("PYTHONHASHSEED", "0")
    os.environ["OMP_NUM_THREADS"] = "1"
    os.environ["MPLBACKEND"] = "Agg"
    base = run_root or SCRATCH_BASE
    # the directory that holds every generated input has a blank and glob / regex metacharacters in its name (run directories
    # such as `run [phi=0.4]+`): a path used as a pattern, split at blanks or pasted into a shell line shows at once
    d = tempfile.mkdtemp(prefix=os.environ.get("KV_WORKDIR_PREFIX", "kv [p=0.4]+."), dir=base)
    _WORK["dir"] = d
    # library bookkeeping (matplotlib config / font cache) goes to its own scratch directory
    if run_root is None or "MPLCONFIGDIR" not in os.environ:
        lib = tempfile.mkdtemp(prefix="kvlib.", dir=base)
        os.environ["MPLCONFIGDIR"] = lib
        _WORK["lib"] = lib
    # faulted plotting runs leave figures open
    import warnings
    warnings.filterwarnings("ignore")
    _WORK["mod"] = importlib.import_module(modname)
    from . import common as _common
    _common.PATHFORMS_ENABLED = bool(getattr(_WORK["mod"], "PATHFORMS", True))
    if quiet:
        devnull = os.open(os.devnull, os.O_WRONLY)
        os.dup2(devnull, 1)
        os.dup2(devnull, 2)
    signal.signal(signal.SIGALRM, _alarm)
    if run_root is None:
        import atexit
        atexit.register(shutil.rmtree, d, True)
        if "lib" in _WORK:
            atexit.register(shutil.rmtree, _WORK["lib"], True)


def clean_dir(d):
    for n in os.listdir(d):
        p = os.path.join(d, n)
        if os.path.isdir(p) and not os.path.islink(p):
            shutil.rmtree(p, ignore_errors=True)
        else:
            try:
                os.remove(p)
            except OSError:
                pass


_COV = {"on": False, "lines": set()}


def _cov_start():
    """development aid (KV_COVERAGE=<dir>): which lines of the package do the checks execute?  sys.monitoring LINE
    events, each location disabled after its first hit, so the overhead is negligible."""
    if _COV["on"] or not os.environ.get("KV_COVERAGE"):
        return
    mon = sys.monitoring
    tid = mon.COVERAGE_ID
    try:
        mon.use_tool_id(tid, "kvcov")
    except ValueError:
        pass

    def on_line(code, line):
        fn = code.co_filename
        if "amr_kitchen" in fn:
            _COV["lines"].add((fn, line))
        return mon.DISABLE
    mon.register_callback(tid, mon.events.LINE, on_line)
    mon.set_events(tid, mon.events.LINE)
    _COV["on"] = True


def _cov_dump():
    if _COV["on"]:
        d = os.environ["KV_COVERAGE"]
        os.makedirs(d, exist_ok=True)
        with open(os.path.join(d, "%d_%d.json" % (os.getpid(), int(time.time() * 1e6))), "w") as f:
            json.dump(sorted(_COV["lines"]), f)


DECOY_NAMES = ["Header", "Cell_H", "state_H", "gradp_H", "I_R_H"] + ["%s_D_%05d" % (p, k) for p in ("Cell", "state", "gradp", "I_R") for k in range(4)]


def plant_decoys(d):
    """the working directory of every case holds files and level directories named like the components of a plotfile /
    checkpoint (as when a tool is started from inside another plotfile): a component looked up relative to the working
    directory instead of the plotfile finds garbage there"""
    if os.environ.get("KV_NO_DECOYS"):
        return
    junk = b"DECOY ((8, (64 11 52 0 1 12 0 1023)),(8, (8 7 6 5 4 3 2 1)))((0,0,0) (1,1,1) (0,0,0)) 1\n" + b"\x7f\xf8\xde\xc0\xde\xc0\xde\xc0" * 64
    for sub in ("", "Level_0", "Level_1", "Level_2"):
        dd = os.path.join(d, sub)
        os.makedirs(dd, exist_ok=True)
        for n in DECOY_NAMES:
            with open(os.path.join(dd, n), "wb") as f:
                f.write(junk)


def twin_of(case):
    """the same case with every `seed` it contains moved on: the same meshes, layouts, names and PATHS, other values
    (another time step of the same run)"""
    import copy
    found = [False]

    def walk(x):
        if isinstance(x, dict):
            for k, v in x.items():
                if k == "seed" and isinstance(v, int) and not isinstance(v, bool):
                    x[k] = v + 1000
                    found[0] = True
                else:
                    walk(v)
        elif isinstance(x, list):
            for v in x:
                walk(v)
    t = copy.deepcopy(case)
    walk(t)
    return t if found[0] else None


def _run_chunk(chunk):
    mod = _WORK["mod"]
    out = []
    _cov_start()
    for ci, case in chunk:
        d = _WORK["dir"]
        # every fourth case is preceded, in the same process and at the same paths, by its twin (another time step): whatever
        # the package keeps from it (open handles, tables or results remembered under a path) must not reach the case itself.
        # The twin's own verdict is not used.
        if ci % 4 == 1 and getattr(mod, "TWIN_PRERUN", True) and not os.environ.get("KV_NO_TWIN"):
            tw = twin_of(case) if isinstance(case, dict) else None
            if tw is not None:
                clean_dir(d)
                plant_decoys(d)
                os.chdir(d)
                try:
                    os.environ["KV_TWIN_RUN"] = "1"
                    signal.alarm(getattr(mod, "CASE_TIMEOUT", 300))
                    mod.run_case(tw, d)
                    signal.alarm(0)
                except BaseException:
                    signal.alarm(0)
                finally:
                    os.environ.pop("KV_TWIN_RUN", None)
        clean_dir(d)
        plant_decoys(d)
        os.chdir(d)
        t0 = time.time()
        try:
            signal.alarm(getattr(mod, "CASE_TIMEOUT", 300))
            res = mod.run_case(case, d)
            signal.alarm(0)
            if ci % 4 == 1 and getattr(mod, "TWIN_PRERUN", True) and not os.environ.get("KV_NO_TWIN"):
                for fl_ in res.get("fails", []):
                    fl_["after_twin"] = True          # (the replay file says so, and --replay runs the twin first)
        except BaseException as e:  # harness error: never silently a pass
            signal.alarm(0)
            res = {"keys": ((), ()), "trans": 0, "fails": [], "outcomes": [], "samples": [], "extra": {},
                   "harness_error": "%s: %s\n%s" % (type(e).__name__, e, traceback.format_exc()[-1500:])}
        res["case_index"] = ci
        res["wall"] = time.time() - t0
        out.append(res)
    clean_dir(_WORK["dir"])
    _cov_dump()
    return out


def load_known(prop):
    if not os.path.exists(KNOWN_FILE) or os.environ.get("KV_NO_KNOWN"):      # KV_NO_KNOWN: development aid
        return []
    with open(KNOWN_FILE) as f:
        data = json.load(f)
    return [e for e in data.get("findings", []) if e.get("property") == prop]


def classify(mod, case, fail, known):
    """Return the known entry whose signature predicate matches this failure, or None."""
    sigs = getattr(mod, "SIGNATURES", {})
    for e in known:
        if e.get("status") != "known":
            continue
        pred = sigs.get(e["signature"])
        if pred is None:
            continue
        try:
            if pred(case, fail):
                return e
        except Exception:
            continue
    return None


def write_replay(prop, case, fail):
    d = os.path.join(REPLAY_DIR, prop)
    os.makedirs(d, exist_ok=True)
    blob = {"property": prop, "case": case, "fail": fail}
    name = "%016x.json" % h64(blob)
    p = os.path.join(d, name)
    with open(p, "w") as f:
        json.dump(blob, f, indent=1, sort_keys=True, default=str)
    return p


def run_check(modname, tier, seed, nproc=None, quiet=True):
    mod = importlib.import_module(modname)
    from . import common as _common
    _common.PATHFORMS_ENABLED = bool(getattr(mod, "PATHFORMS", True))      # (also for what runs in this process: parent_pass)
    prop = mod.PROPERTY
    t0 = time.time()
    known = load_known(prop)
    from . import conformance
    conf = conformance.run()
    if conf["problems"]:
        print("HARNESS-ERROR: reference model does not conform to the real assets: %s" % conf["problems"][:2])
        return 2
    cases = list(mod.cases(tier, seed))
    if not cases:
        print("HARNESS-ERROR: no cases enumerated")
        return 2
    nproc = nproc or int(os.environ.get("VERIF_NPROC", "0")) or min(16, os.cpu_count() or 4)
    nproc = max(1, min(nproc, len(cases)))
    # heavy cases (case['w'] large) go first, one per chunk; light ones are grouped round-robin
    order = sorted(range(len(cases)), key=lambda i: -float(cases[i].get("w", 1) if isinstance(cases[i], dict) else 1))
    tot_w = sum(float(cases[i].get("w", 1) if isinstance(cases[i], dict) else 1) for i in order)
    target = tot_w / (nproc * 16.0)
    chunks = []
    cur, cur_w = [], 0.0
    for i in order:
        w = float(cases[i].get("w", 1) if isinstance(cases[i], dict) else 1)
        cur.append((i, cases[i]))
        cur_w += w
        if cur_w >= target:
            chunks.append(cur)
            cur, cur_w = [], 0.0
    if cur:
        chunks.append(cur)
    ctx = multiprocessing.get_context("fork")
    results = []
    # one scratch root per run, removed by the parent whatever happens to the workers
    run_root = tempfile.mkdtemp(prefix="kvrun.", dir=SCRATCH_BASE)
    os.environ["MPLCONFIGDIR"] = os.path.join(run_root, "mplconfig")
    os.makedirs(os.environ["MPLCONFIGDIR"])
    os.environ["MPLBACKEND"] = "Agg"
    # The package is imported ONCE here, in pristine state, and every chunk of cases runs in a FRESH fork of this
    # process (maxtasksperchild=1): process-lifetime state (class attributes, module globals, caches) starts from the
    # initial state for every chunk, and whatever a chunk leaves behind cannot leak into the next one.
    if getattr(mod, "PREIMPORT", True):
        import warnings
        with warnings.catch_warnings():
            warnings.simplefilter("ignore")
            import amr_kitchen  # noqa
    try:
        with ctx.Pool(nproc, initializer=_worker_init, initargs=(modname, quiet, run_root), maxtasksperchild=1) as pool:
            for out in pool.imap_unordered(_run_chunk, chunks):
                results.extend(out)
    finally:
        shutil.rmtree(run_root, ignore_errors=True)
    results.sort(key=lambda r: r["case_index"])
    if os.environ.get("KV_SLOW"):          # development aid: the slowest cases
        for r in sorted(results, key=lambda r: -r["wall"])[:int(os.environ["KV_SLOW"])]:
            print("SLOW %.2fs case %d %s" % (r["wall"], r["case_index"], json.dumps(cases[r["case_index"]], default=str)[:300]))
        print("SUM of case walls %.1fs" % sum(r["wall"] for r in results))

    import numpy as np
    all_keys = []
    all_nt = []
    evaluations = 0
    trans = 0
    outcomes = set()
    samples = []
    extra = {}
    harness_errors = []
    violations = []
    known_hits = {}
    fails_total = 0
    for r in results:
        if "harness_error" in r:
            harness_errors.append((r["case_index"], r["harness_error"]))
        ks, nt = r["keys"]
        if len(ks):
            evaluations += len(ks)
            all_keys.append(np.asarray(ks, dtype=np.uint64))
            all_nt.append(np.asarray(nt, dtype=bool))
        trans += r["trans"]
        outcomes.update(r["outcomes"])
        if len(samples) < 3:
            samples.extend(r["samples"][:1])
        for k, v in r["extra"].items():
            if isinstance(v, (int, float)):
                extra[k] = extra.get(k, 0) + v
        case = cases[r["case_index"]]
        for fl in r["fails"]:
            fails_total += 1
            e = classify(mod, case, fl, known)
            if e is not None:
                known_hits.setdefault(e["signature"], [e, 0, (case, fl)])
                known_hits[e["signature"]][1] += 1
            else:
                violations.append((case, fl))

    # optional free-running pass in the (non-daemonic) parent: real pools, outcome must be among the explored ones
    free_runs = 0
    if hasattr(mod, "parent_pass") and not harness_errors:
        d = tempfile.mkdtemp(prefix=os.environ.get("KV_WORKDIR_PREFIX", "kvfree [p=0.4]+."), dir=SCRATCH_BASE)
        os.environ["MPLCONFIGDIR"] = os.path.join(d, "mplconfig")
        os.makedirs(os.environ["MPLCONFIGDIR"])
        sys.stdout.flush()
        saved = (os.dup(1), os.dup(2))
        devnull = os.open(os.devnull, os.O_WRONLY)
        cwd = os.getcwd()
        try:
            os.dup2(devnull, 1)
            os.dup2(devnull, 2)
            os.chdir(d)
            try:
                os.environ["KV_REAL_POOLS"] = "1"        # (helpers must not install the controlled pool in this process)
                items = mod.parent_pass(tier, seed, d)
            except BaseException as e:
                items = []
                harness_errors.append((-1, "parent_pass: %s: %s" % (type(e).__name__, e)))
        finally:
            os.chdir(cwd)
            os.dup2(saved[0], 1)
            os.dup2(saved[1], 2)
            for fd in saved + (devnull,):
                os.close(fd)
            shutil.rmtree(d, ignore_errors=True)
        for it in items:
            free_runs += 1
            if it["outcome"] not in outcomes:
                fails_total += 1
                fl = {"clause": "real_pool_outcome_not_explored", "sub": {"what": it["what"]},
                      "detail": "%s observed %s, which no explored schedule produced" % (it["what"], it.get("obs", ""))}
                e = classify(mod, {"parent_pass": True}, fl, known)
                if e is not None:
                    known_hits.setdefault(e["signature"], [e, 0, ({}, fl)])
                    known_hits[e["signature"]][1] += 1
                else:
                    violations.append(({"parent_pass": True, "what": it["what"]}, fl))
    if all_keys:
        ak = np.concatenate(all_keys)
        an = np.concatenate(all_nt)
        states = np.unique(ak)
        nontriv = np.unique(ak[an])
    else:
        states = nontriv = ()
    wall = time.time() - t0
    rc = 0
    if harness_errors:
        for ci, msg in harness_errors[:3]:
            print("HARNESS-ERROR: property=%s case=%d %s" % (prop, ci, msg))
        rc = 2
    for sig, (e, n, ex) in sorted(known_hits.items()):
        print("KNOWN-FINDING: property=%s %s [signature=%s, %d failing executions]"
              % (prop, e["what"], sig, n))
    seen_clause = {}
    for case, fl in violations:
        key = fl["clause"]
        seen_clause[key] = seen_clause.get(key, 0) + 1
        if seen_clause[key] <= 3 and sum(min(v, 3) for v in seen_clause.values()) <= 12:
            p = write_replay(prop, case, fl)
            print("VIOLATION property=%s replay=%s clause=%s detail=%s"
                  % (prop, p, fl["clause"], fl["detail"][:200].replace("\n", " ")))
    if violations:
        rc = 1          # (a violation is reported as such even when other cases ended in a harness error)
        print("violations by clause: %s" % json.dumps(seen_clause, sort_keys=True))

    if not samples:
        samples = [cases[0]]
    cov = {
        "states": len(states),
        "transitions": trans,
        "traces_validated_against_impl": evaluations,
        "evaluations": evaluations,
        "distinct_nontrivial": len(nontriv),
        "rule": getattr(mod, "RULE", ""),
        "samples": samples[:3],
        "cases": len(cases),
        "distinct_outcomes": len(outcomes),
        "exhaustive": bool(getattr(mod, "EXHAUSTIVE", True)) and not harness_errors,
        "bounds": mod.bounds(tier) if hasattr(mod, "bounds") else {},
        "failing_executions": fails_total,
        "known_finding_executions": sum(v[1] for v in known_hits.values()),
        "known_findings_hit": sorted(known_hits),
        "workers": nproc,
        "free_running_real_pool_runs": free_runs,
    }
    cov.update(extra)
    cov["model_conformance"] = conf
    ev = {
        "property_id": prop,
        "tier": tier,
        "seed": int(seed),
        "level": mod.LEVEL,
        "coverage": cov,
        "assumptions": list(getattr(mod, "ASSUMPTIONS", [])),
        "wall_s": round(wall, 3),
        "violations": len(violations),
    }
    os.makedirs(EVIDENCE_DIR, exist_ok=True)
    with open(os.path.join(EVIDENCE_DIR, prop + ".json"), "w") as f:
        json.dump(ev, f, indent=1, sort_keys=True, default=str)
    print("%s tier=%s seed=%s cases=%d executions=%d states=%d transitions=%d nontrivial=%d "
          "outcomes=%d violations=%d known=%d wall=%.1fs"
          % (prop, tier, seed, len(cases), evaluations, len(states), trans, len(nontriv),
             len(outcomes), len(violations), cov["known_finding_executions"], wall))
    return rc


_WORK_CONF = {}


def replay(modname, path):
    mod = importlib.import_module(modname)
    with open(path) as f:
        blob = json.load(f)
    _worker_init(modname, quiet=False)
    d = _WORK["dir"]
    plant_decoys(d)
    os.chdir(d)
    if blob.get("fail", {}).get("after_twin"):
        tw = twin_of(blob["case"])
        if tw is not None:
            try:
                os.environ["KV_TWIN_RUN"] = "1"
                mod.run_case(tw, d)
            except BaseException:
                pass
            finally:
                os.environ.pop("KV_TWIN_RUN", None)
            clean_dir(d)
            plant_decoys(d)
            os.chdir(d)
    res = mod.run_case(blob["case"], d)
    known = load_known(mod.PROPERTY)
    bad = 0
    for fl in res["fails"]:
        e = classify(mod, blob["case"], fl, known)
        tag = "KNOWN" if e else "VIOLATION"
        print("%s clause=%s sub=%s detail=%s" % (tag, fl["clause"], json.dumps(fl["sub"], default=str), fl["detail"]))
        if not e:
            bad += 1
    if "harness_error" in res:
        print("HARNESS-ERROR", res["harness_error"])
        return 2
    if bad:
        print("VIOLATION property=%s replay=%s" % (mod.PROPERTY, path))
        return 1
    print("replay: no violation")
    return 0
