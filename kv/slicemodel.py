"""Reference model of axis-aligned slices of a 3D RefPlot (C07 / C16), in exact integer lattice units.

unit = a quarter of the finest level's cell along the normal; level l cell size s_l = 4*2^(F-l) units,
cell k of level l spans [k*s_l, (k+1)*s_l], centre at k*s_l + s_l/2.  Positions are integers m (pos =
geo_lo + m*unit)."""
import numpy as np

EPS = np.finfo(float).eps


class SliceModel(object):
    def __init__(self, ref, normal):
        self.ref = ref
        self.n = normal
        self.cx, self.cy = [d for d in range(3) if d != normal]
        self.F = ref.nlevels - 1
        self.nf = len(ref.fields)
        self.val = []
        self.has = []
        for lv in range(ref.nlevels):
            shape = tuple(ref.domain[lv])
            v = np.full(shape + (self.nf,), np.nan)
            h = np.zeros(shape, dtype=bool)
            for (lo, hi), a in zip(ref.boxes[lv], ref.data[lv]):
                sl = tuple(slice(lo[d], hi[d] + 1) for d in range(3))
                v[sl] = a
                h[sl] = True
            # axes -> (cx, cy, n)
            self.val.append(np.transpose(v, (self.cx, self.cy, self.n, 3)))
            self.has.append(np.transpose(h, (self.cx, self.cy, self.n)))

    def s(self, lv):
        return 4 * 2 ** (self.F - lv)

    def nunits(self):
        return self.ref.domain[self.F][self.n] * 4

    def pos_of(self, m):
        return self.ref.geo_lo[self.n] + m * (self.ref.dx[self.F][self.n] / 4.0)

    def centre(self, lv, k):
        return self.ref.geo_lo[self.n] + (k + 0.5) * self.ref.dx[lv][self.n]

    def pixel_cells(self, lv, L):
        """in-plane level-lv cell of every pixel of the level-L grid"""
        nx, ny = self.ref.domain[L][self.cx], self.ref.domain[L][self.cy]
        I, J = np.meshgrid(np.arange(nx) >> (L - lv), np.arange(ny) >> (L - lv), indexing="ij")
        return I, J

    def level_view(self, lv, L, m):
        """per pixel of the level-L grid: bracket samples of level lv at position m"""
        s = self.s(lv)
        N = self.ref.domain[lv][self.n]
        kl = (m - s // 2) // s
        kr = -((-(m - s // 2)) // s)
        I, J = self.pixel_cells(lv, L)
        out = {}
        for side, k in (("l", kl), ("r", kr)):
            if 0 <= k < N:
                out[side + "_has"] = self.has[lv][I, J, k]
                out[side + "_val"] = self.val[lv][I, J, k, :]
                out[side + "_n"] = self.centre(lv, k)
            else:
                out[side + "_has"] = np.zeros(I.shape, dtype=bool)
                out[side + "_val"] = np.full(I.shape + (self.nf,), np.nan)
                out[side + "_n"] = np.nan
        kcs = [m // s] + ([m // s - 1] if m % s == 0 else [])
        cont = np.zeros(I.shape, dtype=bool)
        for kc in kcs:
            if 0 <= kc < N:
                cont |= self.has[lv][I, J, kc]
        out["contains"] = cont
        out["kl"], out["kr"] = kl, kr
        return out

    @staticmethod
    def lerp(lv_, ln, rv, rn, pos):
        if ln == rn or not np.isfinite(ln) or not np.isfinite(rn):
            return rv
        with np.errstate(all="ignore"):
            e = (lv_ * (rn - pos) + rv * (pos - ln)) / (rn - ln)
            # equal samples interpolate to themselves (also +-inf, where the formula above is inf as well)
            return np.where(lv_ == rv, rv, e)

    def reference(self, m, L):
        """Returns dict with per pixel (level-L grid, shape (nx, ny)):
        Lp: finest level <= L containing the point; exact_ok: both level-Lp bracket cells exist;
        exact: expected value per field where exact_ok; tol: fp bound; cands: list of candidate arrays;
        level_ok: (nlev, nx, ny) levels acceptable for grid_level"""
        pos = self.pos_of(m)
        views = [self.level_view(lv, L, m) for lv in range(L + 1)]
        shape = views[0]["contains"].shape
        Lp = np.full(shape, -1, dtype=int)
        for lv in range(L + 1):
            Lp[views[lv]["contains"]] = lv
        exact_ok = np.zeros(shape, dtype=bool)
        exact = np.full(shape + (self.nf,), np.nan)
        mag = np.zeros(shape + (self.nf,))
        for lv in range(L + 1):
            v = views[lv]
            sel = (Lp == lv) & v["l_has"] & v["r_has"]
            if sel.any():
                e = self.lerp(v["l_val"], v["l_n"], v["r_val"], v["r_n"], pos)
                exact[sel] = e[sel]
                mag[sel] = (np.abs(v["l_val"]) + np.abs(v["r_val"]))[sel]
                exact_ok |= sel
        # candidate set: any left sample x any right sample over levels, and single samples
        cands = []
        for a in range(L + 1):
            va = views[a]
            cands.append((va["l_has"], va["l_val"], np.abs(va["l_val"])))
            cands.append((va["r_has"], va["r_val"], np.abs(va["r_val"])))
            for b in range(L + 1):
                vb = views[b]
                ok = va["l_has"] & vb["r_has"]
                if ok.any() and np.isfinite(va["l_n"]) and np.isfinite(vb["r_n"]):
                    if va["l_n"] == vb["r_n"]:
                        e = vb["r_val"]
                    else:
                        e = (va["l_val"] * (vb["r_n"] - pos) + vb["r_val"] * (pos - va["l_n"])) / (vb["r_n"] - va["l_n"])
                    cands.append((ok, e, np.abs(va["l_val"]) + np.abs(vb["r_val"])))
        # grid_level: a level with a box at the pixel whose (half-cell extended) normal extent holds the plane
        level_ok = np.zeros((L + 1,) + shape, dtype=bool)
        for lv in range(L + 1):
            v = views[lv]
            level_ok[lv] = v["contains"] | v["l_has"] | v["r_has"]
        return {"pos": pos, "Lp": Lp, "exact_ok": exact_ok, "exact": exact, "mag": mag, "cands": cands,
                "level_ok": level_ok, "views": views}

    def shared_face_pixels(self, m, L):
        """pixels (level-L grid) where the plane lies within half a cell of a face shared by two boxes of the
        same level l <= L that are adjacent along the normal (signature of the known finding C07-b)."""
        mask = None
        for lv in range(L + 1):
            s = self.s(lv)
            I, J = self.pixel_cells(lv, L)
            if mask is None:
                mask = np.zeros(I.shape, dtype=bool)
            for (lo, hi) in self.ref.boxes[lv]:
                for face_k, inner_k, outer_k in ((hi[self.n] + 1, hi[self.n], hi[self.n] + 1), (lo[self.n], lo[self.n], lo[self.n] - 1)):
                    fpos = face_k * s
                    if abs(m - fpos) > s // 2:
                        continue
                    if not (0 <= outer_k < self.ref.domain[lv][self.n]):
                        continue
                    foot = (I >= lo[self.cx]) & (I <= hi[self.cx]) & (J >= lo[self.cy]) & (J <= hi[self.cy])
                    # neighbour cell across the face belongs to ANOTHER box of the same level
                    mask |= foot & self.has[lv][I, J, outer_k]
        return mask
