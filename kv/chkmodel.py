"""Synthetic PeleLMeX checkpoints in the layout of test_assets/example_chk_3d, and the plotfile
contents a conversion must produce (reference for C17)."""
import os
import numpy as np
from .refmodel import FAB_PREFIX, RefPlot, g17, boxstr, default_layout

SUBSETS = ["I_R", "divU", "gradp", "p", "state"]


def normalise(desc):
    d = dict(desc)
    d.setdefault("origin", [0.0, 0.0, 0.0])
    d.setdefault("dx0", [0.25, 0.25, 0.25])
    d.setdefault("time", 1.6457727058794072e-11)
    d.setdefault("nspecies", 2)
    d.setdefault("ghost", 3)
    d.setdefault("step", 5)
    d.setdefault("seed", 0)
    d.setdefault("int_line", False)
    d.setdefault("coord_line", True)
    lays = dict(d.get("layouts") or {})
    for s in SUBSETS:
        lay = lays.get(s) or [None] * len(d["levels"])
        lays[s] = [default_layout(len(bx)) if l is None else l for l, bx in zip(lay, d["levels"])]
    d["layouts"] = lays
    return d


def _vals(lv, comp, lo, hi, seed, base):
    nd = 3
    idx = np.meshgrid(*[np.arange(lo[k], hi[k] + 1) for k in range(nd)], indexing="ij")
    code = (idx[0] + 16) + 64 * (idx[1] + 16) + 4096 * (idx[2] + 16)
    return base + 0.125 * comp + 0.5 * lv + code * 2.0 ** -20 + (seed % 5) * 2.0 ** -24


def subset_ncomp(d, s):
    ns = d["nspecies"]
    return {"state": 4 + ns + 3, "gradp": 3, "I_R": ns, "p": 1, "divU": 1}[s]


def subset_ghost(d, s):
    return {"state": d["ghost"], "gradp": 0, "I_R": 0, "p": 1, "divU": 1}[s]


def subset_data(d, s, lv, lo, hi):
    """array over the ghost-grown box, shape (nx+2g, ny+2g, nz+2g, ncomp)"""
    g = subset_ghost(d, s)
    glo = [a - g for a in lo]
    ghi = [a + g for a in hi]
    nc = subset_ncomp(d, s)
    base = {"state": 1.0, "gradp": -50.0, "I_R": 100.0, "p": 7.0, "divU": 9.0}[s]
    arr = np.empty(tuple(h - l + 1 for l, h in zip(glo, ghi)) + (nc,))
    for c in range(nc):
        arr[..., c] = _vals(lv, c, glo, ghi, d["seed"], base)
    if s == "state":
        ns = d["nspecies"]
        for k in range(ns):   # mass fractions: positive, sum != 1
            arr[..., 4 + k] = (0.1 + 0.05 * k) + (_vals(lv, k, glo, ghi, d["seed"], 0.0) % 0.125)
        if d.get("ysum") == "drift":
            # solver drift: every cell's species sum is within 4e-6 of one (and never exactly one)
            idx = np.meshgrid(*[np.arange(glo[k_], ghi[k_] + 1) for k_ in range(3)], indexing="ij")
            delta = (((idx[0] + 2 * idx[1] + 3 * idx[2]) % 8) - 3.5) * 1e-6
            ysum = np.sum(arr[..., 4:4 + ns], axis=-1)
            arr[..., 4:4 + ns] = arr[..., 4:4 + ns] / ysum[..., None] * (1.0 + delta)[..., None]
    return arr, glo, ghi


def write_checkpoint(desc, path):
    """Returns the expected RefPlot builder inputs: dict with per level interior arrays per subset."""
    d = normalise(desc)
    nlev = len(d["levels"])
    os.makedirs(path)
    geo_lo = list(d["origin"])
    geo_hi = [d["origin"][k] + d["dx0"][k] * d["domain"][k] for k in range(3)]
    L = ["Checkpoint version: 1", str(nlev - 1), str(d["step"])]
    if d["int_line"]:
        L.append("0")
    L.append(d.get("time_text") or g17(d["time"]))
    L.append("3.946824488833992e-12")
    L.append("3.5880222625763559e-12")
    L.append(" ".join(g17(v) for v in geo_lo) + " ")
    L.append(" ".join(g17(v) for v in geo_hi) + " ")
    for lv in range(nlev):
        L.append("(%d 0" % len(d["levels"][lv]))
        for lo, hi in d["levels"][lv]:
            L.append(boxstr(lo, hi))
        L.append(")")
    L.append("101325")
    if d["coord_line"]:
        L.append("0")
        L.append("0")
    for c in range(subset_ncomp(d, "state")):
        L.append(g17(0.5 + 0.25 * c))
    with open(os.path.join(path, "Header"), "w") as f:
        f.write("\n".join(L) + "\n")
    interior = []
    for lv in range(nlev):
        ldir = os.path.join(path, "Level_%d" % lv)
        os.makedirs(ldir)
        boxes = d["levels"][lv]
        nb = len(boxes)
        lvint = {}
        for s in SUBSETS:
            lay = d["layouts"][s][lv]
            nc = subset_ncomp(d, s)
            g = subset_ghost(d, s)
            files = [None] * nb
            offs = [None] * nb
            mins = [None] * nb
            maxs = [None] * nb
            ints = [None] * nb
            for flist, num in zip(lay["files"], lay["nums"]):
                fname = "%s_D_%05d" % (s, num)
                with open(os.path.join(ldir, fname), "wb") as bf:
                    for b in flist:
                        lo, hi = boxes[b]
                        arr, glo, ghi = subset_data(d, s, lv, lo, hi)
                        files[b] = fname
                        offs[b] = bf.tell()
                        bf.write(("%s%s %d\n" % (FAB_PREFIX, boxstr(glo, ghi), nc)).encode())
                        bf.write(arr.flatten(order="F").tobytes())
                        mins[b] = arr.min(axis=(0, 1, 2))
                        maxs[b] = arr.max(axis=(0, 1, 2))
                        ints[b] = arr[g:arr.shape[0] - g, g:arr.shape[1] - g, g:arr.shape[2] - g, :] if g else arr
            lvint[s] = ints
            H = ["1", "1", str(nc), str(g), "(%d 0" % nb]
            H += [boxstr(lo, hi) for lo, hi in boxes]
            H += [")", str(nb)]
            H += ["FabOnDisk: %s %d" % (files[b], offs[b]) for b in range(nb)]
            H += ["", "%d,%d" % (nb, nc)]
            H += ["".join("%.16e," % v for v in mins[b]) for b in range(nb)]
            H += ["", "%d,%d" % (nb, nc)]
            H += ["".join("%.16e," % v for v in maxs[b]) for b in range(nb)]
            H += [""]
            with open(os.path.join(ldir, s + "_H"), "w") as f:
                f.write("\n".join(H) + "\n")
        interior.append(lvint)
    return d, interior


def expected_plot(d, interior, species, gradp=True, reactions=False, floor=True):
    """RefPlot the conversion must produce (values bit-exact except floored mass fractions)."""
    ns = d["nspecies"]
    nlev = len(d["levels"])
    fields = ["x_velocity", "y_velocity", "z_velocity", "density"] + ["Y(%s)" % s for s in species] + ["rhoh", "temp", "RhoRT"]
    if gradp:
        fields += ["gradpx", "gradpy", "gradpz"]
    if reactions:
        fields += ["I_R(%s)" % s for s in species]
    data = []
    boxes = []
    for lv in range(nlev):
        lvd = []
        lvb = []
        for b, (lo, hi) in enumerate(d["levels"][lv]):
            st = np.array(interior[lv]["state"][b])
            if floor:
                ysum = np.sum(st[..., 4:4 + ns], axis=-1)
                st[..., 4:4 + ns] = st[..., 4:4 + ns] / ysum[..., None]
            parts = [st]
            if gradp:
                parts.append(interior[lv]["gradp"][b])
            if reactions:
                parts.append(interior[lv]["I_R"][b])
            lvd.append(np.concatenate(parts, axis=-1))
            lvb.append((tuple(lo), tuple(hi)))
        data.append(lvd)
        boxes.append(lvb)
    dx = [[d["dx0"][k] / 2 ** lv for k in range(3)] for lv in range(nlev)]
    domain = [[d["domain"][k] * 2 ** lv for k in range(3)] for lv in range(nlev)]
    geo_lo = list(d["origin"])
    geo_hi = [d["origin"][k] + d["dx0"][k] * d["domain"][k] for k in range(3)]
    return RefPlot(3, fields, d["time"], geo_lo, geo_hi, dx, domain, boxes, data, step=d["step"])
