"""Stateless schedule explorer (deviation-bounded) over the controlled pool."""
import itertools
from . import vpool

MAX_TASKS = 4


def call_alternatives(call, max_tasks=MAX_TASKS):
    """All non-default schedules of one recorded pool call."""
    n = call["n"]
    kind = call["kind"]
    modes = ("eager",) if kind == "map" else ("lazy", "eager")
    if n <= max_tasks:
        perms = itertools.permutations(range(n))
        capped = False
    else:
        # beyond the bound: every permutation of every max_tasks-subset moved to the front
        perms = []
        # (more than 8 tasks: the subsets are taken among six positions - the first two, the middle two, the last two)
        positions = range(n) if n <= 8 else sorted(set([0, 1, n // 2 - 1, n // 2, n - 2, n - 1]))
        for sub in itertools.combinations(positions, max_tasks):
            rest = [i for i in range(n) if i not in sub]
            for p in itertools.permutations(sub):
                perms.append(tuple(p) + tuple(rest))
        capped = True
    default_mode = "eager" if kind in ("map", "map_async") else "lazy"
    for p in perms:
        for m in modes:
            if tuple(p) == tuple(range(n)) and m == default_mode:
                continue
            yield (tuple(p), m), capped


def explore(run, bound=1, max_tasks=MAX_TASKS, stats=None):
    """run(plan) -> observation; must create its own `vpool.controlled(plan)` and return
    (ctl, observation).  Yields (plan, ctl, observation) for the default schedule and for every
    schedule within `bound` deviating pool calls."""
    ctl0, obs0 = run({})
    yield {}, ctl0, obs0
    if stats is not None:
        stats["pool_calls"] = stats.get("pool_calls", 0) + len(ctl0.calls)
    frontier = [({}, ctl0)]
    for depth in range(bound):
        nxt = []
        for plan, ctl in frontier:
            first = (max(plan) + 1) if plan else 0
            for ci in range(first, len(ctl.calls)):
                call = ctl.calls[ci]
                if call["n"] < 1:
                    continue
                for alt, capped in call_alternatives(call, max_tasks):
                    if capped and stats is not None:
                        stats["capped_calls"] = stats.get("capped_calls", 0) + 1
                    p2 = dict(plan)
                    p2[ci] = alt
                    c2, o2 = run(p2)
                    # replaying the prefix must reproduce the same calls up to ci
                    for k in range(ci + 1):
                        if k >= len(c2.calls) or (c2.calls[k]["kind"], c2.calls[k]["n"]) != (ctl.calls[k]["kind"], ctl.calls[k]["n"]):
                            raise vpool.HarnessError("divergence while replaying schedule prefix at call %d" % k)
                    yield p2, c2, o2
                    nxt.append((p2, c2))
        frontier = nxt


def plan_json(plan):
    return {str(k): [list(v[0]) if v[0] is not None else None, v[1]] for k, v in plan.items()}


def plan_from_json(j):
    return {int(k): (tuple(v[0]) if v[0] is not None else None, v[1]) for k, v in j.items()}
