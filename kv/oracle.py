"""Oracles shared by the writer checks: an output directory must be a valid plotfile whose
contents equal an expected RefPlot."""
import os
import numpy as np
from . import vpool
from .refmodel import ParsedPlot, FormatError, bits_equal, same_value
from .common import call, exc_text


def parse_output(rec, sub, out, need_minmax=True):
    try:
        return ParsedPlot(out, need_minmax=need_minmax)
    except (FormatError, OSError, ValueError, IndexError) as e:
        rec.fail("output_unparsable", sub, exc_text(e))
        return None


def taste_accepts(rec, sub, out, coords=True, clause="taste_rejects_output"):
    """taste must accept with default options and (optionally) with box coordinates."""
    from amr_kitchen.taste import Taster
    ok = True
    for bc in ([False, True] if coords else [False]):
        with vpool.controlled():
            st, val = call(lambda: Taster(out, boxes_coordinates=bc, nofail=False, verbose=0))
        if st == "exc":
            rec.fail(clause, dict(sub, boxes_coordinates=bc), exc_text(val))
            ok = False
        elif not bool(val):
            rec.fail(clause, dict(sub, boxes_coordinates=bc), "bool(Taster) False")
            ok = False
    return ok


def floats_equal(a, b):
    return len(a) == len(b) and all(same_value(float(x), float(y)) for x, y in zip(a, b))


def compare_contents(rec, sub, pp, exp, check_minmax=True, coords=True, data_cmp=None, prefix=""):
    """pp: ParsedPlot of the output; exp: expected RefPlot. Fails are recorded on rec.
    data_cmp(lv, b, got, want) -> None or error text (default: bit-wise equality)."""
    ok = True

    def bad(clause, detail):
        nonlocal ok
        ok = False
        rec.fail(prefix + clause, sub, detail)
    probs = pp.problems(check_minmax=check_minmax, coords=coords)
    if probs:
        bad("output_invalid", "; ".join(probs[:3]))
    if pp.fields != list(exp.fields):
        bad("fields", "fields %r, expected %r" % (pp.fields, list(exp.fields)))
    if pp.ndims != exp.ndims:
        bad("ndims", "%r != %r" % (pp.ndims, exp.ndims))
    if pp.finest + 1 != exp.nlevels:
        bad("levels", "%d levels, expected %d" % (pp.finest + 1, exp.nlevels))
        return ok
    if not same_value(pp.time, exp.time):
        bad("time", "%r != %r" % (pp.time, exp.time))
    if not floats_equal(pp.geo_lo, exp.geo_lo) or not floats_equal(pp.geo_hi, exp.geo_hi):
        bad("geometry", "%r..%r != %r..%r" % (pp.geo_lo, pp.geo_hi, exp.geo_lo, exp.geo_hi))
    for lv in range(exp.nlevels):
        pl = pp.levels[lv]
        if not floats_equal(pp.dx[lv], exp.dx[lv]):
            bad("dx", "level %d: %r != %r" % (lv, pp.dx[lv], exp.dx[lv]))
        if list(pp.domain[lv]) != list(exp.domain[lv]):
            bad("domain", "level %d: %r != %r" % (lv, pp.domain[lv], exp.domain[lv]))
        if sorted(pl.index) != sorted(exp.boxes[lv]) or len(pl.index) != len(exp.boxes[lv]):
            bad("boxes", "level %d: boxes %r, expected %r" % (lv, pl.index, exp.boxes[lv]))
            continue
        for b, (lo, hi) in enumerate(pl.index):
            eb = exp.boxes[lv].index((lo, hi))
            ephys = exp.phys_box(lv, eb)
            for d in range(exp.ndims):
                tol = 1e-9 * abs(exp.dx[lv][d])
                if abs(pl.phys[b][d][0] - ephys[d][0]) > tol or abs(pl.phys[b][d][1] - ephys[d][1]) > tol:
                    bad("box_bounds", "level %d box %d dim %d: %r != %r" % (lv, b, d, pl.phys[b][d], ephys[d]))
            try:
                flo, fhi, nc, arr = pp.fab_at(lv, b)
            except (FormatError, OSError) as e:
                bad("box_unreadable", exc_text(e))
                continue
            want = exp.data[lv][eb]
            if data_cmp is not None:
                msg = data_cmp(lv, eb, arr, want)
                if msg:
                    bad("values", "level %d box %s: %s" % (lv, (lo, hi), msg))
            elif not bits_equal(arr, want):
                if arr.shape != want.shape:
                    bad("values", "level %d box %s: shape %s != %s" % (lv, (lo, hi), arr.shape, want.shape))
                else:
                    diff = np.argwhere(arr.view(np.uint64) != np.ascontiguousarray(want).view(np.uint64))
                    comps = sorted(set(int(x[-1]) for x in diff))
                    bad("values", "level %d box %s: %d cells differ, components %s" % (lv, (lo, hi), len(diff), comps))
    return ok


def compare_minmax_tokens(rec, sub, pp, rows_fn, prefix=""):
    """rows_fn(lv, (lo,hi)) -> (min tokens, max tokens) expected, token-exact."""
    for lv in range(pp.nread):
        pl = pp.levels[lv]
        if pl.mins is None:
            rec.fail(prefix + "minmax_missing", sub, "level %d has no min/max tables" % lv)
            continue
        for b, box in enumerate(pl.index):
            emin, emax = rows_fn(lv, box)
            if pl.mins[b] != emin or pl.maxs[b] != emax:
                rec.fail(prefix + "minmax_rows", sub, "level %d box %s: rows %r / %r, expected %r / %r"
                         % (lv, box, pl.mins[b], pl.maxs[b], emin, emax))
