"""Binding the reference model to reality: the independent reader must parse the repository's
real AMReX-written assets and re-derive every min/max row from the binary data, and the
reference writer -> reader round trip must be the identity."""
import os
import sys
import json
import shutil
import tempfile
import numpy as np
from . import refmodel, scope

ASSETS = ["example_plt_2d", "example_plt_3d", "plt1_Y", "plt2_F", "plt_eb_3d"]
REPO_ASSETS = os.environ.get("KV_ASSETS", "/repo/test_assets")


def check_assets():
    out = {"assets": 0, "boxes": 0, "minmax_rows": 0, "problems": []}
    for a in ASSETS:
        p = os.path.join(REPO_ASSETS, a)
        if not os.path.isdir(p):
            continue
        pp = refmodel.ParsedPlot(p, strict_tail=(a != 'example_plt_2d'))  # that asset's Header was hand-trimmed to 2 levels
        probs = pp.problems(check_minmax=True, coords=True)
        out["assets"] += 1
        for lv in pp.levels:
            out["boxes"] += lv.nboxes
            out["minmax_rows"] += 2 * lv.nboxes
        out["problems"] += ["%s: %s" % (a, q) for q in probs[:5]]
    return out


def check_roundtrip(workdir):
    n = 0
    bad = []
    for nd in (2, 3):
        for mesh in scope.named_meshes(nd):
            for payload in ("coded", "hostile"):
                d = dict(mesh)
                d.update({"fields": ["a", "b", "a"], "payload": payload,
                          "origin": scope.ORIGINS3[1][:nd], "dx0": scope.CELLS3[2][:nd]})
                lay = []
                for bx in mesh["levels"]:
                    ls = scope.layouts(len(bx))
                    lay.append(ls[-1])
                d["layout"] = lay
                p = os.path.join(workdir, "rt")
                shutil.rmtree(p, ignore_errors=True)
                ref = refmodel.write_plotfile(d, p)
                pp = refmodel.ParsedPlot(p)
                probs = pp.problems()
                back = pp.to_refplot()
                ok = (not probs and back.fields == ref.fields and back.boxes == ref.boxes
                      and all(refmodel.bits_equal(x, y) for lx, ly in zip(back.data, ref.data) for x, y in zip(lx, ly))
                      and back.geo_lo == ref.geo_lo and back.dx == ref.dx and back.time == ref.time)
                n += 1
                if not ok:
                    bad.append({"desc": d, "problems": probs[:3]})
    return {"roundtrips": n, "bad": bad}


def run():
    base = "/dev/shm" if os.path.isdir("/dev/shm") else None
    d = tempfile.mkdtemp(prefix="kvconf.", dir=base)
    try:
        a = check_assets()
        r = check_roundtrip(d)
    finally:
        shutil.rmtree(d, ignore_errors=True)
    res = {"assets_parsed": a["assets"], "asset_boxes": a["boxes"], "asset_minmax_rows": a["minmax_rows"],
           "roundtrips": r["roundtrips"], "problems": a["problems"] + [json.dumps(b)[:300] for b in r["bad"]]}
    return res


if __name__ == "__main__":
    res = run()
    print(json.dumps(res, indent=1))
    sys.exit(1 if res["problems"] else 0)
