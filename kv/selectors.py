"""Selector alphabets for the reader's indexing interface (fields / levels / boxes) with the
three classes of DESIGN.md C01:  A must be exact, B exact-or-exception, C must raise."""
import itertools
import numpy as np


def decode(tag):
    """JSON-able tagged selector -> python object handed to the reader."""
    k = tag[0]
    if k in ("name", "int"):
        return tag[1]
    if k == "npint":
        return np.int64(tag[1])
    if k == "slice":
        return slice(tag[1], tag[2], tag[3])
    if k in ("list", "names", "mask"):
        return list(tag[1])
    if k == "array":
        return np.array(tag[1], dtype=int)
    if k == "namesarr":
        return np.array(tag[1])
    if k == "maskarr":
        return np.array(tag[1], dtype=bool)
    raise ValueError(tag)


def _cls_int(i, n, negclass="B"):
    if 0 <= i < n:
        return "A"
    if -n <= i < 0:
        return negclass
    return "C"


def field_selectors(names, rich=True):
    """Yield (tag, class, numpy_index or None) for a plotfile with reader-side field names `names`.
    numpy_index is what to apply on the last axis of the reference array (None: must raise)."""
    n = len(names)
    if n > 16:
        # very many fields: a fixed menu that contains every FORM (the complete alphabets are astronomically large)
        for i in (0, 1, 9, 10, 99, 100, n // 2, n - 1):
            if i < n:
                yield ["name", names[i]], "A", i
        yield ["name", "no_such_field"], "C", None
        for i in (0, 9, 10, n - 1, -1, -n, n, -n - 1):
            c = _cls_int(i, n)
            yield ["int", i], c, (i if c != "C" else None)
            yield ["npint", i], ("B" if c != "C" else "C"), (i if c != "C" else None)
        for a, b, st in ((None, None, None), (1, None, None), (None, 10, None), (9, 11, None), (99, 101, None), (None, None, 2), (5, n - 5, 7), (-3, None, None),
                         (None, None, -1), (n - 1, n, None), (10, 10, None)):
            sl = slice(a, b, st)
            cnt = len(range(*sl.indices(n)))
            yield ["slice", a, b, st], ("A" if (st in (None, 1, 2, 7) and cnt > 0) else "B"), sl
        for L in ([0, n - 1], [9, 10, 11], [2, 3, 7], list(range(0, n, 11)), [n - 2, n - 1]):
            yield ["list", list(L)], "A", list(L)
            yield ["array", list(L)], "A", list(L)
            yield ["names", [names[i] for i in L]], "A", list(L)
        for L in ([n - 1, 0], [10, 9, 100 % n], [1, 2, 0], [0, 0], [-1, 0]):
            yield ["list", list(L)], "B", list(L)
        yield ["list", [0, n]], "C", None
        yield ["names", [names[1], names[0]]], "B", [1, 0]
        return
    for i, nm in enumerate(names):
        yield ["name", nm], "A", i
    yield ["name", "no_such_field"], "C", None
    for i in range(-n - 1, n + 1):
        c = _cls_int(i, n)
        yield ["int", i], c, (i if c != "C" else None)
        if rich:
            yield ["npint", i], ("B" if c != "C" else "C"), (i if c != "C" else None)
    vals = [None] + list(range(-n, n + 1))
    for a in vals:
        for b in vals:
            for s in (None, 1, 2, -1):
                sl = slice(a, b, s)
                cnt = len(range(*sl.indices(n)))
                c = "A" if (s in (None, 1, 2) and cnt > 0) else "B"
                yield ["slice", a, b, s], c, sl
    # ascending index lists (class A), every non-empty subset
    for r in range(1, n + 1):
        for comb in itertools.combinations(range(n), r):
            yield ["list", list(comb)], "A", list(comb)
            if rich:
                yield ["array", list(comb)], "A", list(comb)
                yield ["names", [names[i] for i in comb]], "A", list(comb)
    # permutations / duplicates / negatives of length <= 3 (class B), out of range (class C)
    pool = list(range(-n, n + 1))
    seen = set()
    for r in range(1, min(3, n + 1) + 1):
        for L in itertools.product(pool, repeat=r):
            L = list(L)
            if all(0 <= v < n for v in L) and all(L[i] < L[i + 1] for i in range(len(L) - 1)):
                continue   # ascending: already produced as class A
            key = tuple(L)
            if key in seen:
                continue
            seen.add(key)
            if any(v >= n or v < -n for v in L):
                yield ["list", L], "C", None
            else:
                yield ["list", L], "B", L
    if n >= 2:
        yield ["names", [names[1], names[0]]], "B", [1, 0]


def level_selectors(nlev):
    for lv in range(nlev):
        yield lv, "A", lv
    yield nlev, "C", None
    yield -1, "B", nlev - 1
    # negative keys down to and beyond the number of levels: -nlev names level 0 (or raises), anything below must raise
    yield -nlev, "B", 0
    for k in (-nlev - 1, -nlev - 2, -2 * nlev, -2 * nlev - 1, nlev + 1):
        yield k, "C", None


def box_selectors(nb, rich=True, maxlist=3):
    """Yield (tag, class, list of box ids or int or None)."""
    ids = list(range(nb))
    if nb > 6:
        # many boxes: the complete alphabets are astronomically large; a fixed menu that contains every FORM
        for i in (0, nb - 1, nb // 2, -1, -nb, nb, -nb - 1):
            c = _cls_int(i, nb)
            yield ["int", i], c, (ids[i] if c != "C" else None)
        for a, b, s in ((None, None, None), (None, None, 2), (1, None, 3), (None, None, -1), (5, nb - 3, None), (nb - 2, None, None),
                        (None, 9, None), (3, nb - 1, 4), (-5, None, None)):
            sel = ids[slice(a, b, s)]
            yield ["slice", a, b, s], ("A" if (s in (None, 1, 2, 3, 4) and len(sel) > 0) else "B"), sel
        rot = ids[1:] + ids[:1]
        for L in (rot, [nb - 1, 0, nb // 2], ids[::3], [nb // 2, nb // 2 + 1, 2], list(reversed(ids))):
            yield ["list", list(L)], "A", [ids[v] for v in L]
            yield ["array", list(L)], "A", [ids[v] for v in L]
        yield ["list", [0, nb]], "C", None
        for m in ([bool(i % 2) for i in ids], [i < nb // 2 for i in ids], [i % 5 == 3 for i in ids], [True] * nb):
            yield ["mask", list(m)], "A", [i for i in ids if m[i]]
            yield ["maskarr", list(m)], "A", [i for i in ids if m[i]]
        yield ["maskarr", [True] * (nb + 1)], "C", None
        return
    for i in range(-nb - 1, nb + 1):
        c = _cls_int(i, nb)
        yield ["int", i], c, (ids[i] if c != "C" else None)
        if rich:
            yield ["npint", i], ("B" if c != "C" else "C"), (ids[i] if c != "C" else None)
    vals = [None] + list(range(-nb, nb + 1))
    for a in vals:
        for b in vals:
            for s in (None, 1, 2, -1):
                sl = slice(a, b, s)
                sel = ids[sl]
                c = "A" if (s in (None, 1, 2) and len(sel) > 0) else "B"
                yield ["slice", a, b, s], c, sel
    pool = list(range(-nb, nb + 1))
    for r in range(1, maxlist + 1):
        for L in itertools.product(pool, repeat=r):
            L = list(L)
            if any(v >= nb or v < -nb for v in L):
                c, sel = "C", None
            elif any(v < 0 for v in L):
                c, sel = "B", [ids[v] for v in L]
            else:
                c, sel = "A", [ids[v] for v in L]
            yield ["list", L], c, sel
            if rich and r <= 2:
                yield ["array", L], c, sel
    yield ["list", []], "B", []
    # every complete permutation of the boxes (rotations are not self-inverse: order must be the requested one)
    if 3 <= nb <= 4:
        for perm in itertools.permutations(range(nb)):
            if len(perm) > maxlist:
                yield ["list", list(perm)], "A", [ids[v] for v in perm]
            yield ["array", list(perm)], "A", [ids[v] for v in perm]
    for m in itertools.product([False, True], repeat=nb):
        sel = [i for i in ids if m[i]]
        yield ["mask", list(m)], ("A" if sel else "B"), sel
        yield ["maskarr", list(m)], ("A" if sel else "B"), sel
    yield ["maskarr", [True] * (nb + 1)], "C", None


def combine_class(*cs):
    if "C" in cs:
        return "C"
    if "B" in cs:
        return "B"
    return "A"
