"""Corruption operators on a generated plotfile (C04 / C20) and the reference validator ref_bad.

A base plotfile is loaded into a structured in-memory model (header records, Cell_H records,
binary files as bytearrays with the original FAB table); a mutation is a small JSON-able list
[op, args...] applied to the model; mutants are written out as directories."""
import os
import re
import copy
import itertools
import numpy as np

from .refmodel import FAB_PREFIX


class Model(object):
    def __init__(self, path):
        self.path = path
        with open(os.path.join(path, "Header")) as f:
            self.header = f.read().split("\n")
        # locate box-bound lines
        L = self.header
        nf = int(L[1])
        self.nfields = nf
        self.ndims = int(L[2 + nf])
        self.finest = int(L[4 + nf])
        p = 2 + nf + 8 + (self.finest + 1) + 2      # first level line
        self.bound_lines = {}                       # (lv, b, d) -> line number
        self.levels = []
        for lv in range(self.finest + 1):
            nb = int(L[p].split()[1])
            p += 2
            for b in range(nb):
                for d in range(self.ndims):
                    self.bound_lines[(lv, b, d)] = p
                    p += 1
            cell = L[p].strip()
            p += 1
            ldir = cell.split("/")[0]
            with open(os.path.join(path, ldir, "Cell_H")) as f:
                ch = f.read().split("\n")
            recs = []
            q = 5
            for i, t in enumerate(ch):
                recs.append([None, t])
            for b in range(nb):
                recs[5 + b][0] = ("index", b)
            fod0 = 5 + nb + 2
            files = []
            offsets = []
            for b in range(nb):
                recs[fod0 + b][0] = ("fod", b)
                t = ch[fod0 + b].split()
                files.append(t[1])
                offsets.append(int(t[2]))
            bins = {}
            fabs = {}
            for fn in sorted(set(files)):
                with open(os.path.join(path, ldir, fn), "rb") as f:
                    data = bytearray(f.read())
                bins[fn] = data
                tab = []
                for b in sorted([b for b in range(nb) if files[b] == fn], key=lambda b: offsets[b]):
                    o = offsets[b]
                    e = data.index(b"\n", o) + 1
                    hdr = bytes(data[o:e]).decode()
                    m = re.search(r"\(\(([-\d,]+)\) \(([-\d,]+)\) \(([-\d,]+)\)\) (\d+)\n$", hdr)
                    lo = [int(a) for a in m.group(1).split(",")]
                    hi = [int(a) for a in m.group(2).split(",")]
                    nc = int(m.group(4))
                    ncell = int(np.prod([h - l + 1 for l, h in zip(lo, hi)]))
                    tab.append({"box": b, "off": o, "hend": e, "end": e + ncell * nc * 8, "ncell": ncell, "nc": nc,
                                "lo": lo, "hi": hi})
                fabs[fn] = tab
            self.levels.append({"dir": ldir, "nb": nb, "cellh": recs, "files": files, "offsets": offsets,
                                "bins": bins, "fabs": fabs, "edits": {fn: [] for fn in bins}})

    def clone(self):
        m = copy.copy(self)
        m.header = list(self.header)
        m.levels = []
        for lv in self.levels:
            l2 = dict(lv)
            l2["cellh"] = [list(r) for r in lv["cellh"]]
            l2["bins"] = {k: (bytearray(v) if v is not None else None) for k, v in lv["bins"].items()}
            l2["edits"] = {k: list(v) for k, v in lv["edits"].items()}
            m.levels.append(l2)
        return m

    # position mapping after earlier insertions/removals in the same file
    def cur(self, lv, fn, pos):
        p = pos
        for (at, delta) in self.levels[lv]["edits"][fn]:
            if at <= pos:
                p += delta
        return max(p, 0)

    def splice(self, lv, fn, pos, remove, insert):
        data = self.levels[lv]["bins"][fn]
        if data is None or isinstance(data, str):
            return False
        p = self.cur(lv, fn, pos)
        if p > len(data):
            return False
        del data[p:p + remove]
        data[p:p] = insert
        self.levels[lv]["edits"][fn].append((pos, len(insert) - remove))
        return True

    def rec(self, lv, role):
        for r in self.levels[lv]["cellh"]:
            if r[0] == role:
                return r
        return None

    def write(self, out):
        os.makedirs(out)
        with open(os.path.join(out, "Header"), "w") as f:
            f.write("\n".join(self.header))
        for lv in self.levels:
            d = os.path.join(out, lv["dir"])
            os.makedirs(d)
            with open(os.path.join(d, "Cell_H"), "w") as f:
                f.write("\n".join(r[1] for r in lv["cellh"] if r[1] is not None))
            for fn, data in lv["bins"].items():
                if isinstance(data, str):
                    # the name is there but it is no file: a dangling symbolic link (purged scratch area) / a directory
                    if data == "dangling":
                        os.symlink(os.path.join(d, "purged_" + fn), os.path.join(d, fn))
                    else:
                        os.makedirs(os.path.join(d, fn))
                elif data is not None:
                    with open(os.path.join(d, fn), "wb") as f:
                        f.write(bytes(data))


# ----------------------------------------------------------------------------------------
# operators
# ----------------------------------------------------------------------------------------
def _shift_offsets(m, lv, fn, after_off, delta):
    """matching shift of the Cell_H offsets of FABs located at/after after_off in file fn"""
    L = m.levels[lv]
    for b in range(L["nb"]):
        if L["files"][b] == fn and L["offsets"][b] >= after_off:
            r = m.rec(lv, ("fod", b))
            if r is None or r[1] is None:
                continue
            t = r[1].split()
            try:
                t[2] = str(int(t[2]) + delta)
            except (ValueError, IndexError):
                continue
            r[1] = " ".join(t)


def apply(m, mut):
    """Apply one mutation (list) to model m in place. Returns False if not applicable."""
    op = mut[0]
    if op == "delete_file":
        _, lv, fn = mut
        if m.levels[lv]["bins"][fn] is None:
            return False
        m.levels[lv]["bins"][fn] = None
        return True
    if op == "unfile":
        _, lv, fn, what = mut
        if not isinstance(m.levels[lv]["bins"][fn], (bytes, bytearray)):
            return False
        m.levels[lv]["bins"][fn] = what
        return True
    if op == "truncate":
        _, lv, fn, n = mut
        data = m.levels[lv]["bins"][fn]
        if data is None or isinstance(data, str) or n > len(data) or n <= 0:
            return False
        del data[len(data) - n:]
        return True
    if op == "extend":
        _, lv, fn, what = mut
        data = m.levels[lv]["bins"][fn]
        if data is None or isinstance(data, str):
            return False
        if what == "dupfab":
            last = m.levels[lv]["fabs"][fn][-1]
            orig = bytes(m.levels[lv]["bins"][fn][m.cur(lv, fn, last["off"]):m.cur(lv, fn, last["end"])])
            data.extend(orig)
        else:
            data.extend(b"\x00" * int(what))
        return True
    if op in ("insert8", "remove8"):
        _, lv, fn, k, where, shift = mut
        fab = m.levels[lv]["fabs"][fn][k]
        pos = fab["off"] if where == "boundary" else fab["hend"] + 8 * (fab["ncell"] * fab["nc"] // 2)
        if op == "insert8":
            ok = m.splice(lv, fn, pos, 0, b"\x01\x02\x03\x04\x05\x06\x07\x08")
            delta = 8
        else:
            if where == "boundary":
                # remove the 8 bytes just before the boundary (tail of the previous payload)
                if pos < 8:
                    return False
                ok = m.splice(lv, fn, pos - 8, 8, b"")
            else:
                ok = m.splice(lv, fn, pos, 8, b"")
            delta = -8
        if ok and shift:
            after = fab["off"] if where == "boundary" else fab["off"] + 1
            _shift_offsets(m, lv, fn, after, delta)
        return ok
    if op == "fabhdr":
        _, lv, fn, k, kind, d = mut
        fab = m.levels[lv]["fabs"][fn][k]
        lo, hi, nc = list(fab["lo"]), list(fab["hi"]), fab["nc"]
        if kind == "hi+1":
            hi[d] += 1
        elif kind == "shift":
            lo[d] += 1
            hi[d] += 1
        elif kind == "nc+1":
            nc += 1
        elif kind == "nc-1":
            nc -= 1
            if nc < 1:
                return False
        new = "%s((%s) (%s) (%s)) %d\n" % (FAB_PREFIX, ",".join(map(str, lo)), ",".join(map(str, hi)),
                                           ",".join("0" for _ in lo), nc)
        return m.splice(lv, fn, fab["off"], fab["hend"] - fab["off"], new.encode())
    if op == "fabhdr_text":      # byte-level edits of the FAB header text (C20)
        _, lv, fn, k, kind = mut
        fab = m.levels[lv]["fabs"][fn][k]
        data = m.levels[lv]["bins"][fn]
        if data is None or isinstance(data, str):
            return False
        old = bytes(data[m.cur(lv, fn, fab["off"]):m.cur(lv, fn, fab["hend"])]).decode("latin1")
        if kind == "extra_blanks":
            new = old.replace(") (", ")  (")
        elif kind == "precision":
            new = old.replace("(64 11 52 0 1 12 0 1023)", "(32 8 23 0 1 9 0 127)")
        elif kind == "bytes4":            # the size in the byte-order part of the descriptor
            new = old.replace(")),(8, (", ")),(4, (", 1)
        elif kind == "realsize4":         # the size in the format part
            new = old.replace("FAB ((8, (", "FAB ((4, (", 1)
        elif kind == "single":            # a complete single-precision descriptor in front of double-precision data
            new = old.replace("((8, (64 11 52 0 1 12 0 1023)),(8, (8 7 6 5 4 3 2 1)))", "((8, (32 8 23 0 1 9 0 127)),(4, (4 3 2 1)))", 1)
        elif kind == "byteorder":         # the byte order list reversed
            new = old.replace("(8 7 6 5 4 3 2 1)", "(1 2 3 4 5 6 7 8)", 1)
        elif kind == "prefix_damaged":
            new = "XXX" + old[3:]
        elif kind == "prefix_cut":
            new = old[4:]
        elif kind == "tab":
            new = old.replace(")) ", "))\t")
        else:
            return False
        return m.splice(lv, fn, fab["off"], fab["hend"] - fab["off"], new.encode("latin1"))
    if op == "index":
        _, lv, b, kind, d = mut
        r = m.rec(lv, ("index", b))
        if r is None or r[1] is None:
            return False
        if kind == "delete":
            r[1] = None
            return True
        mm = re.match(r"\(\(([-\d,]+)\) \(([-\d,]+)\) \(([-\d,]+)\)\)", r[1])
        if not mm:
            return False
        lo = [int(a) for a in mm.group(1).split(",")]
        hi = [int(a) for a in mm.group(2).split(",")]
        third = mm.group(3)
        if kind == "shift":
            lo[d] += 1
            hi[d] += 1
        elif kind == "grow":
            hi[d] += 1
        elif kind == "third":
            third = ",".join("1" for _ in lo)
        elif kind == "unparsable":
            r[1] = "((%s) (%s) (%s))" % (",".join(map(str, lo)),
                                         ",".join("x" if i == d else str(v) for i, v in enumerate(hi)), third)
            return True
        elif kind == "drop_token":
            r[1] = "((%s) (%s)" % (",".join(map(str, lo)), ",".join(map(str, hi)))
            return True
        r[1] = "((%s) (%s) (%s))" % (",".join(map(str, lo)), ",".join(map(str, hi)), third)
        return True
    if op == "fod":
        _, lv, b, kind, arg = mut
        r = m.rec(lv, ("fod", b))
        if r is None or r[1] is None:
            return False
        if kind == "delete":
            r[1] = None
            return True
        t = r[1].split()
        if len(t) != 3:
            return False
        L = m.levels[lv]
        fn = L["files"][b]
        fab = [f for f in L["fabs"][fn] if f["box"] == b][0]
        size = len(L["bins"][fn]) if isinstance(L["bins"][fn], (bytes, bytearray)) else fab["end"]
        if kind == "offset":
            if arg == "+1":
                t[2] = str(fab["off"] + 1)
            elif arg == "-1":
                t[2] = str(fab["off"] - 1)
            elif arg == "mid":
                t[2] = str(fab["hend"] + 8 * (fab["ncell"] * fab["nc"] // 2) + 3)
            elif arg == "eof":
                t[2] = str(size)
            elif arg == "beyond":
                t[2] = str(size + 64)
            elif arg in ("+2^31", "+2^32", "+3*2^32"):
                # far beyond the end of the file by a power of two: a position that only wraps back to the right one in
                # 32-bit (or 64-bit) arithmetic
                t[2] = str(fab["off"] + {"+2^31": 2 ** 31, "+2^32": 2 ** 32, "+3*2^32": 3 * 2 ** 32}[arg])
            elif arg == "zeros":
                t[2] = "00" + str(fab["off"])
            elif arg == "plus":
                t[2] = "+" + str(fab["off"])
            elif arg == "unparsable":
                t[2] = "x" + str(fab["off"])
            elif arg in ("prev_fab", "next_fab"):
                tab = L["fabs"][fn]
                k = tab.index(fab) + (-1 if arg == "prev_fab" else 1)
                if not (0 <= k < len(tab)):
                    return False
                t[2] = str(tab[k]["off"])
        elif kind == "file":
            if arg == "missing":
                t[1] = "Cell_D_09999"
            elif arg == "other":
                others = sorted(f for f in L["bins"] if f != fn)
                if not others:
                    return False
                t[1] = others[0]
        elif kind == "drop_token":
            t = t[:2]
        elif kind == "tabs":
            r[1] = "\t".join(t) + "  "
            return True
        r[1] = " ".join(t)
        return True
    if op == "bound":
        _, lv, b, d, kind = mut
        ln = m.bound_lines.get((lv, b, d))
        if ln is None:
            return False
        a = m.header[ln].split()
        if len(a) != 2:
            return False
        lo, hi = float(a[0]), float(a[1])
        dx = float(m.header[2 + m.nfields + 8 + lv].split()[d])
        if kind == "move":
            lo, hi = lo + dx, hi + dx
        elif kind == "swap":
            lo, hi = hi, lo
        elif kind == "grow":
            hi = hi + dx
        elif kind in ("lo_nan", "hi_nan", "lo_inf"):
            m.header[ln] = {"lo_nan": "nan %.17g" % hi, "hi_nan": "%.17g nan" % lo, "lo_inf": "-inf %.17g" % hi}[kind]
            return True
        elif kind in ("lo-", "lo+", "hi-", "hi+"):
            # a bound off by 0.4 cell, downwards or upwards (a fraction of a cell, but well beyond any rounding)
            sh = (-0.4 if kind[2] == "-" else 0.4) * dx
            lo, hi = (lo + sh, hi) if kind[:2] == "lo" else (lo, hi + sh)
        m.header[ln] = "%.17g %.17g" % (lo, hi)
        return True
    if op == "cellh_ncomp":      # the component count line of a level header (its third line)
        _, lv, delta = mut
        r = m.levels[lv]["cellh"][2]
        try:
            v = int(r[1])
        except (TypeError, ValueError):
            return False
        if v + delta < 1:
            return False
        r[1] = str(v + delta)
        return True
    if op == "ws":      # whitespace edits in headers (C20)
        _, which, lv = mut
        if which == "cellh_trailing":
            for r in m.levels[lv]["cellh"]:
                if r[0] is not None and r[1] is not None:
                    r[1] = r[1] + "  "
            return True
        if which == "header_trailing":
            for (l, b, d), ln in m.bound_lines.items():
                m.header[ln] = m.header[ln] + " "
            return True
        return False
    raise ValueError("unknown mutation %r" % (mut,))


def site(mut):
    """Site identifier: pairs are formed from mutations at distinct sites."""
    op = mut[0]
    if op in ("delete_file", "truncate", "extend", "unfile"):
        return ("file", mut[1], mut[2])
    if op in ("insert8", "remove8"):
        return ("fabdata", mut[1], mut[2], mut[3], mut[4])
    if op in ("fabhdr", "fabhdr_text"):
        return ("fabhdr", mut[1], mut[2], mut[3])
    if op == "index":
        return ("index", mut[1], mut[2])
    if op == "fod":
        return ("fod", mut[1], mut[2])
    if op == "bound":
        return ("bound", mut[1], mut[2], mut[3])
    if op == "cellh_ncomp":
        return ("cellh_ncomp", mut[1])
    return tuple(mut)


def file_of(mut, model):
    op = mut[0]
    if op in ("delete_file", "unfile", "truncate", "extend", "insert8", "remove8", "fabhdr", "fabhdr_text"):
        return (mut[1], mut[2])
    if op in ("index", "fod"):
        return (mut[1], model.levels[mut[1]]["files"][mut[2]])
    return None


def singles(model, coords=False, textual=False):
    """Every single corruption at every applicable site of the base model."""
    out = []
    nd = model.ndims
    for lv, L in enumerate(model.levels):
        for fn in sorted(L["bins"]):
            tab = L["fabs"][fn]
            last = tab[-1]
            out.append(["delete_file", lv, fn])
            out.append(["unfile", lv, fn, "dangling"])
            out.append(["unfile", lv, fn, "directory"])
            for n in sorted(set([1, 8, last["ncell"] * 8, last["ncell"] * last["nc"] * 8, len(L["bins"][fn])])):
                out.append(["truncate", lv, fn, n])
            for what in (1, 8, "dupfab"):
                out.append(["extend", lv, fn, what])
            for k, fab in enumerate(tab):
                for where in ("boundary", "mid"):
                    for shift in (False, True):
                        out.append(["insert8", lv, fn, k, where, shift])
                        out.append(["remove8", lv, fn, k, where, shift])
                for d in range(nd):
                    out.append(["fabhdr", lv, fn, k, "hi+1", d])
                    out.append(["fabhdr", lv, fn, k, "shift", d])
                out.append(["fabhdr", lv, fn, k, "nc+1", 0])
                out.append(["fabhdr", lv, fn, k, "nc-1", 0])
                if textual:
                    for kind in ("extra_blanks", "precision", "bytes4", "realsize4", "single", "byteorder", "prefix_damaged", "prefix_cut", "tab"):
                        out.append(["fabhdr_text", lv, fn, k, kind])
        for b in range(L["nb"]):
            for d in range(nd):
                out.append(["index", lv, b, "shift", d])
                out.append(["index", lv, b, "grow", d])
            out.append(["index", lv, b, "unparsable", 0])
            out.append(["index", lv, b, "drop_token", 0])
            out.append(["index", lv, b, "third", 0])
            out.append(["index", lv, b, "delete", 0])
            out.append(["fod", lv, b, "delete", None])
            for arg in ("+1", "-1", "mid", "eof", "beyond", "+2^31", "+2^32", "+3*2^32", "unparsable", "prev_fab", "next_fab"):
                out.append(["fod", lv, b, "offset", arg])
            if textual:
                for arg in ("zeros", "plus"):
                    out.append(["fod", lv, b, "offset", arg])
                out.append(["fod", lv, b, "tabs", None])
            out.append(["fod", lv, b, "file", "missing"])
            out.append(["fod", lv, b, "file", "other"])
            out.append(["fod", lv, b, "drop_token", None])
            if coords:
                for d in range(nd):
                    for kind in ("move", "swap", "grow", "lo-", "lo+", "hi-", "hi+", "lo_nan", "hi_nan", "lo_inf"):
                        out.append(["bound", lv, b, d, kind])
        out.append(["cellh_ncomp", lv, 1])
        out.append(["cellh_ncomp", lv, -1])
        if textual:
            out.append(["ws", "cellh_trailing", lv])
    if textual:
        out.append(["ws", "header_trailing", 0])
    return out


# ----------------------------------------------------------------------------------------
# reference validator: the statement's conditions, literally (and with its leniency)
# ----------------------------------------------------------------------------------------
def _tuple(s):
    return tuple(int(a) for a in s.replace("(", "").replace(")", "").split(","))


def lenient_fab(line):
    """The FAB header is readable if its last four whitespace tokens parse as lo, hi, type, ncomp."""
    try:
        t = line.decode("ascii").split()
        lo_s, hi_s, _ty, nc = t[-4:]
        nc = int(nc)
        lo = tuple(int(a) for a in lo_s.split("(")[-1].replace(")", "").split(","))
        hi = tuple(int(a) for a in hi_s.replace("(", "").replace(")", "").split(","))
        if len(lo) != len(hi):
            return None
        return lo, hi, nc
    except Exception:
        return None


STRICT_SCAN = int(__import__("os").environ.get("KV_STRICT_SCAN", "1"))


def ref_bad(path, limit=None, coords=False):
    """Return a reason string if the directory is bad by the conditions of C04, else None."""
    try:
        with open(os.path.join(path, "Header")) as f:
            H = f.read().split("\n")
        nf = int(H[1])
        nd = int(H[2 + nf])
        finest = int(H[4 + nf])
        geo_lo = [float(a) for a in H[5 + nf].split()]
        dxs = [[float(a) for a in H[2 + nf + 8 + lv].split()] for lv in range(finest + 1)]
        p = 2 + nf + 8 + (finest + 1) + 2
    except Exception as e:
        return "global header unparsable: %s" % e
    L = finest if limit is None else limit
    for lv in range(L + 1):
        try:
            t = H[p].split()
            nb = int(t[1])
            p += 2
            phys = []
            for b in range(nb):
                bx = []
                for d in range(nd):
                    a = H[p].split()
                    bx.append((float(a[0]), float(a[1])))
                    if len(a) != 2:
                        return "box bound line"
                    p += 1
                phys.append(bx)
            ldir = H[p].split("/")[0]
            p += 1
        except Exception as e:
            return "level %d section of Header unparsable: %s" % (lv, e)
        try:
            with open(os.path.join(path, ldir, "Cell_H")) as f:
                C = f.read().split("\n")
        except OSError as e:
            return "level header missing: %s" % e
        try:
            ncomp_h = int(C[2])
            n = int(C[4].split()[0].replace("(", ""))
        except Exception as e:
            return "level %d header preamble: %s" % (lv, e)
        index = []
        for b in range(n):
            try:
                t = C[5 + b].split()
                if len(t) != 3:
                    return "level %d: index line %d has %d tokens" % (lv, b, len(t))
                index.append((_tuple(t[0]), _tuple(t[1])))
                if len(index[-1][0]) != nd or len(index[-1][1]) != nd:
                    return "level %d: index line %d dimensionality" % (lv, b)
            except Exception:
                return "level %d: index line %d unparsable" % (lv, b)
        try:
            if int(C[5 + n + 1]) != n:
                return "level %d: FabOnDisk count" % lv
        except Exception:
            return "level %d: FabOnDisk count line unparsable (a box entry is missing)" % lv
        if n != nb:
            return "level %d: Header announces %d boxes, level header %d" % (lv, nb, n)
        if ncomp_h != nf:
            return "level %d: level header announces %d components, the plotfile has %d fields" % (lv, ncomp_h, nf)
        files, offs = [], []
        for b in range(n):
            try:
                t = C[5 + n + 2 + b].split()
                if len(t) != 3:
                    return "level %d: FabOnDisk line %d has %d tokens" % (lv, b, len(t))
                files.append(t[1])
                offs.append(int(t[2]))
            except Exception:
                return "level %d: FabOnDisk line %d unparsable" % (lv, b)
        for fn in set(files):
            if not os.path.isfile(os.path.join(path, ldir, fn)):
                return "level %d: binary file %s missing" % (lv, fn)
        datas = {}
        for fn in set(files):
            with open(os.path.join(path, ldir, fn), "rb") as f:
                datas[fn] = f.read()
        for b in range(n):
            data = datas[files[b]]
            o = offs[b]
            if o < 0 or o >= len(data):
                return "level %d box %d: no FAB header readable at offset %d" % (lv, b, o)
            e = data.find(b"\n", o)
            line = data[o:(e + 1 if e >= 0 else len(data))]
            h = lenient_fab(line)
            if h is None:
                return "level %d box %d: FAB header at offset %d unreadable" % (lv, b, o)
            if (h[0], h[1]) != index[b]:
                return "level %d box %d: FAB range %s != level header %s" % (lv, b, h[:2], index[b])
            if h[2] != nf:
                return "level %d box %d: FAB component count %d != %d" % (lv, b, h[2], nf)
        for fn in sorted(set(files)):
            data = datas[fn]
            bs = sorted([b for b in range(n) if files[b] == fn], key=lambda b: offs[b])
            pos = 0
            for b in bs:
                e = data.find(b"\n", pos)
                if e < 0:
                    return "level %d %s: layout scan: no header line at %d" % (lv, fn, pos)
                h = lenient_fab(data[pos:e + 1])
                if h is None:
                    return "level %d %s: layout scan: unreadable header at %d" % (lv, fn, pos)
                # the end of one FAB must be the beginning of the next: a complete header line, not its tail
                if (STRICT_SCAN >= 2 or (STRICT_SCAN >= 1 and pos > 0)) and not data.startswith(b"FAB", pos):
                    return "level %d %s: layout scan: position %d (end of the previous FAB) is not the start of a FAB" % (lv, fn, pos)
                ncell = 1
                for l_, h_ in zip(h[0], h[1]):
                    ncell *= (h_ - l_ + 1)
                if ncell <= 0:
                    return "level %d %s: layout scan: empty box" % (lv, fn)
                if (h[0], h[1]) != index[b] or h[2] != nf:
                    return "level %d %s: layout scan: FAB at %d is %s, expected box %d %s" % (lv, fn, pos, h, b, index[b])
                pos = e + 1 + ncell * h[2] * 8
                if pos > len(data):
                    return "level %d %s: layout scan: FAB runs past the end of the file" % (lv, fn)
            if pos != len(data):
                return "level %d %s: file length %d != end of last FAB %d" % (lv, fn, len(data), pos)
        if coords:
            for b in range(n):
                for d in range(nd):
                    dx = dxs[lv][d]
                    elo = geo_lo[d] + index[b][0][d] * dx
                    ehi = geo_lo[d] + (index[b][1][d] + 1) * dx
                    if not (abs(phys[b][d][0] - elo) <= 0.25 * dx and abs(phys[b][d][1] - ehi) <= 0.25 * dx):      # (NaN contradicts)
                        return "level %d box %d dim %d: bounds %r contradict index range" % (lv, b, d, phys[b][d])
    return None
