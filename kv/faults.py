"""I/O fault injector: every open-for-write, every write on such a handle, every mkdir / rmtree /
rename / remove is a counted point; run 0 counts the points, run k raises ENOSPC at point k."""
import os
import io
import errno
import shutil
import builtins

_REAL_OPEN = io.open
_REAL = {}


def _library_path(p):
    """bookkeeping of third-party libraries (matplotlib config / font cache) is not the tool's output"""
    lib = os.environ.get("MPLCONFIGDIR")
    try:
        return bool(lib) and os.path.realpath(str(p)).startswith(os.path.realpath(lib))
    except Exception:
        return False


class _State(object):
    def __init__(self, fail_at, read_roots=None, fail_read_at=None):
        self.n = 0
        self.fail_at = fail_at
        self.fired = None
        # read faults: every open-for-reading of a file inside one of `read_roots` (the input trees) is a counted point;
        # run k raises EACCES there (an input file that cannot be read)
        self.read_roots = [os.path.realpath(r) for r in (read_roots or [])]
        self.rn = 0
        self.fail_read_at = fail_read_at

    def read_point(self, file):
        if not self.read_roots:
            return
        try:
            rp = os.path.realpath(os.fspath(file))
        except Exception:
            return
        if not any(rp == r or rp.startswith(r + os.sep) for r in self.read_roots):
            return
        self.rn += 1
        if self.fail_read_at is not None and self.rn == self.fail_read_at:
            self.fired = "open-for-reading %s" % os.path.basename(rp)
            raise PermissionError(errno.EACCES, "injected fault at read point %d (open %s)" % (self.rn, os.path.basename(rp)), str(file))

    def point(self, what):
        self.n += 1
        if self.fail_at is not None and self.n == self.fail_at:
            self.fired = what
            raise OSError(errno.ENOSPC, "injected fault at write point %d (%s)" % (self.n, what))


class _WProxy(object):
    """file proxy counting writes"""

    def __init__(self, f, st, name):
        self._f = f
        self._st = st
        self._name = name

    def write(self, data):
        self._st.point("write %s" % self._name)
        return self._f.write(data)

    def writelines(self, lines):
        for l in lines:
            self.write(l)

    def __enter__(self):
        self._f.__enter__()
        return self

    def __exit__(self, *a):
        return self._f.__exit__(*a)

    def __iter__(self):
        return iter(self._f)

    def __getattr__(self, k):
        return getattr(self._f, k)


class injecting(object):
    """with injecting(fail_at=None) as st: ...   st.n = number of points seen"""

    def __init__(self, fail_at=None, read_roots=None, fail_read_at=None):
        self.st = _State(fail_at, read_roots, fail_read_at)

    def __enter__(self):
        st = self.st

        def fopen(file, mode="r", *a, **k):
            if isinstance(mode, str) and any(c in mode for c in "wax+") and not isinstance(file, int) \
                    and not _library_path(file):
                name = os.path.basename(str(file))
                st.point("open %s" % name)
                return _WProxy(_REAL_OPEN(file, mode, *a, **k), st, name)
            if not isinstance(file, int):
                st.read_point(file)
            return _REAL_OPEN(file, mode, *a, **k)
        self.saved = (builtins.open, io.open, os.mkdir, shutil.rmtree, os.rename, os.remove, os.replace)
        builtins.open = fopen
        io.open = fopen
        real_mkdir, real_rmtree, real_rename, real_remove, real_replace = self.saved[2:]

        def mkdir(path, *a, **k):
            # makedirs(exist_ok) probes existing directories: only creations are points
            if not os.path.isdir(path) and not _library_path(path):
                st.point("mkdir %s" % os.path.basename(str(path)))
            return real_mkdir(path, *a, **k)

        def rmtree(path, *a, **k):
            st.point("rmtree")
            return real_rmtree(path, *a, **k)

        def rename(*a, **k):
            st.point("rename")
            return real_rename(*a, **k)

        def remove(*a, **k):
            st.point("remove")
            return real_remove(*a, **k)

        def replace(*a, **k):
            st.point("replace")
            return real_replace(*a, **k)
        os.mkdir, shutil.rmtree, os.rename, os.remove, os.replace = mkdir, rmtree, rename, remove, replace
        return st

    def __exit__(self, *a):
        (builtins.open, io.open, os.mkdir, shutil.rmtree, os.rename, os.remove, os.replace) = self.saved
        return False
