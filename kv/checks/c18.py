"""C18 - header-only tools report what the full reader holds (menu, minuterie, marinate)."""
import os
import re
import io
import sys
import copy
import pickle
import itertools
import numpy as np
from .. import scope, vpool
from ..common import build, call, exc_text
from ..refmodel import ParsedPlot, same_value, bits_equal
from ..runner import Rec, h64

PATHFORMS = False      # (this check spells its input paths itself)
PROPERTY = "C18"
LEVEL = "model_checking"
RULE = ("case = generated plotfile (1..5 fields from an alphabet built to collide: species, unknown names that are substrings "
        "or regular expressions of later ones, odd and even counts; 2D/3D; 1..3 levels; negative / zero / tiny / infinite "
        "times and extrema); executions = minuterie.main, Menu in default / min_max / finest_lv / both modes, marinate.main + "
        "unpickle, and every ordered PAIR of menu calls on two different plotfiles in one process compared with the same "
        "call on pristine process state; non-trivial = every execution, distinct by (descriptor, tool, options[, predecessor])")
ASSUMPTIONS = ["process-lifetime state of menu = the class attribute Menu.field_info (snapshot / restored by the harness to emulate a fresh process)",
               "min/max tables of NaN data are undefined: extrema alphabets contain +-inf, -0.0, denormals but no NaN"]

FIELDSETS = [["temp"], ["temp", "density"], ["temp", "density", "Y(H2)"], ["Y(H2)", "Y(O2)", "temp", "Z", "Zvar"],
             ["Z", "Zvar", "a"], ["Zvar", "Z"], ["x_velocity", "y_velocity", "volFrac", "a"], ["a", "ab", "abc"],
             ["a.c", "abc", "Y(N2)"], ["density", "Y(H2)", "Y(O2)", "Y(N2)"], ["I_R(H2)", "Y(H2)", "gradpx", "D_H2", "rhoh"],
             ["Y(CH2(S))", "Y(CH2)", "Y(C(S))", "temp"], ["density", "rho", "temp", "Rho", "Y(H2)", "Temp"], ["phi", "x_velocity", "abc", "Y(O2)"]]


SPECIES21 = ["H2", "H", "O", "O2", "OH", "H2O", "HO2", "CH2", "CH2(S)", "CH3", "CH4", "CO", "CO2", "HCO", "CH2O", "CH3O",
             "C2H4", "C2H5", "C2H6", "N2", "AR"]


def bounds(tier):
    return {"fieldsets": len(FIELDSETS), "terminal_widths": ["unset", 200, 48, 20], "menu_modes": ["default", "min_max", "finest_lv", "min_max+finest_lv"],
            "histories": "all ordered pairs of menu calls over the case's two plotfiles x modes"}


def cases(tier, seed):
    out = []
    times = [0.5, 0.0, -1.25, 1.3924182125972017e-08, 2.0, float("inf")]
    k = seed
    for nd in (2, 3):
        meshes = scope.named_meshes(nd)
        for fi, fs in enumerate(FIELDSETS):
            for mi, mesh in enumerate(meshes):
                if tier == "quick" and (fi + mi + nd) % 2:
                    continue
                third = tier == "thorough" and (fi + mi) % 3 == 0
                k += 1
                # thorough: the full product time x payload kind for every (field set, mesh); quick: one rotating member
                PAY = ["hostile_nonan", "decay", "signed", "huge"]
                combos = [(k % len(times), (fi + 2 * mi + nd) % 4)]
                if tier == "thorough":
                    combos += [c for c in itertools.product(range(len(times)), range(4)) if c != combos[0]]
                for ci, (ti, pi) in enumerate(combos):
                    d = dict(mesh)
                    d.update(list(scope.geometries(nd))[(k + ci) % 6])
                    d.update({"fields": fs, "time": times[ti], "seed": seed, "payload": PAY[pi],
                              "layout": [scope.layouts(len(b), 'idrev')[-1] for b in mesh["levels"]]})
                    other = FIELDSETS[(fi + 3 + ci) % len(FIELDSETS)]
                    d2 = dict(meshes[(mi + 1) % len(meshes)])
                    d2.update({"fields": other, "time": times[(ti + 1) % len(times)], "seed": seed + 1, "payload": "signed"})
                    out.append({"desc": d, "desc2": d2, "triples": third and ci == 0, "names": NAMES[(k + ci) % len(NAMES)]})
    # ONE field on levels with several boxes (the extrema are not in the first box), a square table (as many boxes as fields),
    # field names with blanks
    mb = scope.many_box_mesh()
    specials = [({"ndims": 3, "domain": mb["domain"], "levels": mb["levels"][:1]}, ["temp"]),
                ({"ndims": 2, "domain": [4, 6], "levels": [scope.named_meshes(2)[1]["levels"][0]]}, ["density"]),
                (scope.named_meshes(3)[2], ["temp", "density", "Z"]),                   # 3 boxes x 3 fields on levels 0 and 1
                (scope.named_meshes(2)[2], ["volume fraction", "x velocity", "temp"]),
                (scope.named_meshes(3)[1], ["mass fraction of H2", "temp"]),
                # more species than one row of the species table holds (every reacting-flow plotfile): the 21 species of drm19
                (scope.named_meshes(3)[1], ["temp", "density"] + ["Y(%s)" % sp for sp in SPECIES21] + ["I_R(CH4)", "I_R(CH2(S))"]),
                # a very wide plotfile: the field names alone are more than 8 KiB of the Header (650 species, mass fractions and
                # reaction rates)
                (scope.named_meshes(2)[0], ["temp", "density"] + ["Y(S%03d)" % i for i in range(650)] + ["I_R(S%03d)" % i for i in range(650)] + ["HeatRelease", "my_tracer"])]
    # twelve levels (Level_10, Level_11): the finest level is a two-digit one
    from .c02 import chain_mesh
    for nd_ in (2, 3):
        specials.append((chain_mesh(nd_, 12), ["temp", "density", "Y(H2)"]))
    for si, (mesh, fs) in enumerate(specials):
        nd = mesh["ndims"]
        d = dict(mesh)
        d.update(list(scope.geometries(nd))[(seed + si) % 6])
        d.update({"fields": fs, "time": times[(seed + si) % len(times)], "seed": seed, "payload": "signed",
                  "layout": [scope.scattered_layout(len(b), 3) if len(b) > 4 else scope.layouts(len(b), 'idrev')[-1] for b in mesh["levels"]]})
        d2 = dict(scope.named_meshes(nd)[1])
        d2.update({"fields": FIELDSETS[2], "time": 2.0, "seed": seed + 1, "payload": "signed"})
        out.append({"desc": d, "desc2": d2, "triples": False, "names": NAMES[si % len(NAMES)], "no_marinate": len(mesh["levels"]) > 8})
    # NaN in the per-box tables of level 0 only / of the finer levels only: whatever the table shows for NaN, it must not
    # depend on WHICH level holds it
    for nd in (2, 3):
        for mesh in scope.named_meshes(nd)[1:]:
            d = dict(mesh)
            d.update(list(scope.geometries(nd))[seed % 6])
            d.update({"fields": ["temp", "density", "Z"], "seed": seed, "payload": ["nanlv0", "signed", "nanlv0"]})
            d2 = dict(d, payload=["nanlv1", "signed", "nanlv1"])
            out.append({"desc": d, "desc2": d2, "nanpair": True, "names": NAMES[0]})
    return out


# directory names: plain, with dots after a common stem, a dotted copy next to the plain name
NAMES = [("plt00010", "plt00020"), ("plt_t0.25", "plt_t0.50"), ("plt00100.old", "plt00100")]


def minmax_rows(text):
    L = text.split("\n")
    for i, l in enumerate(L):
        if "Fields' Mins and Maxs:" in l:
            caps = [j for j in range(i, len(L)) if L[j].startswith("+")]
            if len(caps) >= 3:
                rows = {}
                for l2 in L[caps[1] + 1:caps[2]]:
                    for half in l2.split("\t"):
                        m = ROW.match(half.strip())
                        if m:
                            rows[m.group(1)] = (m.group(2), m.group(3))
                return rows
    return None


def run_nanpair(case, workdir, rec):
    from amr_kitchen.menu import Menu
    pristine = copy.deepcopy(Menu.field_info)
    shown = {}
    for tag, d in (("nan_in_level_0", case["desc"]), ("nan_in_finer_levels", case["desc2"])):
        path, ref = build(d, workdir, "plt_" + tag)
        Menu.field_info = copy.deepcopy(pristine)
        st, val, text = run_menu(path, True, False)
        rec.exe([h64(d), "nanpair", tag])
        if st == "exc":
            rec.fail("menu_raised", {"tool": "menu", "min_max": True, "nan": tag}, exc_text(val))
            return
        rows = minmax_rows(text)
        if rows is None:
            rec.fail("menu_no_minmax_table", {"nan": tag}, text[-200:])
            return
        shown[tag] = rows
        # the NaN-free field is exact
        pp = ParsedPlot(path)
        mn = min(float(pp.levels[lv].mins[b][1]) for lv in range(pp.finest + 1) for b in range(pp.levels[lv].nboxes))
        mx = max(float(pp.levels[lv].maxs[b][1]) for lv in range(pp.finest + 1) for b in range(pp.levels[lv].nboxes))
        got = rows.get("density")
        if got is None or not (same_value(float(got[0]), float("%.3g" % mn)) and same_value(float(got[1]), float("%.3g" % mx))):
            rec.fail("menu_minmax_values", {"nan": tag, "field": "density"}, "printed %r, header tables give %r" % (got, (mn, mx)))
    Menu.field_info = pristine
    for f in ("temp", "Z"):
        a, b = shown["nan_in_level_0"].get(f), shown["nan_in_finer_levels"].get(f)
        if a is None or b is None:
            rec.fail("menu_minmax_row_missing", {"field": f}, "%r %r" % (a, b))
            continue
        ca = tuple("nan" in x.lower() for x in a)
        cb = tuple("nan" in x.lower() for x in b)
        if ca != cb:
            rec.fail("menu_nan_depends_on_level", {"field": f},
                     "NaN in the tables of level 0 is shown as %r, NaN in the tables of a finer level as %r" % (a, b))


class Captured(object):
    def __init__(self, argv=None):
        self.argv = argv

    def __enter__(self):
        self.old = (sys.stdout, sys.argv)
        self.buf = io.StringIO()
        sys.stdout = self.buf
        if self.argv is not None:
            sys.argv = self.argv
        return self

    def __exit__(self, *a):
        sys.stdout, sys.argv = self.old
        self.text = self.buf.getvalue()
        return False


def run_menu(path, min_max=False, finest_lv=False):
    from amr_kitchen.menu import Menu
    with Captured() as c:
        with vpool.controlled():
            r = call(lambda: Menu(path, min_max=min_max, finest_lv=finest_lv))
    return r[0], r[1], c.text


def block(text, title):
    """lines between the two +---+ caps following a title line"""
    L = text.split("\n")
    for i, l in enumerate(L):
        if title in l:
            j = i + 1
            while j < len(L) and not L[j].startswith("+"):
                j += 1
            out = []
            j += 1
            while j < len(L) and not L[j].startswith("+"):
                out.append(L[j])
                j += 1
            return out
    return None


def category(field, db):
    for key, (rx, _d, _u) in db.items():
        if re.search(rx, field):
            return key
    return None


def check_default(rec, sub, fields, text, db):
    vb = block(text, "Fields found in file:")
    if vb is None:
        rec.fail("menu_no_field_list", sub, text[-200:])
        return
    toks = " ".join(vb).split()
    for f in fields:
        cat = category(f, db)
        label = cat if cat is not None else f
        # (a name with blanks is one cell of the fixed-width table: counted as a whole, delimited by blanks)
        n = toks.count(label) if " " not in label else len(re.findall(r"(?<!\S)%s(?!\S)" % re.escape(label), "\n".join(vb)))
        if n != 1:
            rec.fail("menu_field_listing", dict(sub, field=f), "field %r (listed as %r) appears %d times in %r" % (f, label, n, toks))
    species = sorted(f[2:-1] for f in fields if re.match(r"^Y\(.+\)$", f))
    if species:
        sb = block(text, "Species found in file:")
        stoks = " ".join(sb).split() if sb is not None else None
        if stoks is None or sorted(stoks) != species:
            rec.fail("menu_species_listing", sub, "species listed %r, header has %r" % (stoks, species))


ROW = re.compile(r"^(\S.*?)\s+:\s+(\S+)\s+(\S+)\s+(\[.*?\])\s*$")


def check_minmax(rec, sub, fields, text, pp, finest):
    tb = None
    L = text.split("\n")
    for i, l in enumerate(L):
        if "Fields' Mins and Maxs:" in l:
            caps = [j for j in range(i, len(L)) if L[j].startswith("+")]
            if len(caps) >= 3:
                tb = L[caps[1] + 1:caps[2]]
            break
    if tb is None:
        rec.fail("menu_no_minmax_table", sub, text[-200:])
        return
    rows = {}
    for l in tb:
        for half in l.split("\t"):
            m = ROW.match(half.strip())
            if m:
                rows.setdefault(m.group(1), []).append((m.group(2), m.group(3)))
    levels = [pp.finest] if finest else range(pp.finest + 1)
    for fi, f in enumerate(fields):
        if f not in rows:
            rec.fail("menu_minmax_row_missing", dict(sub, field=f), "no row for field %r; rows for %r" % (f, sorted(rows)))
            continue
        if len(rows[f]) != 1:
            rec.fail("menu_minmax_row_repeated", dict(sub, field=f), "%d rows" % len(rows[f]))
        mn = min(float(pp.levels[lv].mins[b][fi]) for lv in levels for b in range(pp.levels[lv].nboxes))
        mx = max(float(pp.levels[lv].maxs[b][fi]) for lv in levels for b in range(pp.levels[lv].nboxes))
        try:
            got = (float(rows[f][0][0]), float(rows[f][0][1]))
        except ValueError:
            rec.fail("menu_minmax_unparsable", dict(sub, field=f), repr(rows[f][0]))
            continue
        exp = (float("%.3g" % mn), float("%.3g" % mx))
        if not (same_value(got[0], exp[0]) and same_value(got[1], exp[1])):
            rec.fail("menu_minmax_values", dict(sub, field=f), "printed %r, header tables give %r" % (got, exp))


def check_combination(rec, sub, fields, text, pp, db, mm, fl, has_var, every, description):
    """every part that the options request is printed (the parts are cumulative): the table, the search result, the
    description listing, or - when nothing else was asked - the plain listing"""
    labels = []
    for f in fields:
        lab = category(f, db) or f
        if lab not in labels:
            labels.append(lab)
    if mm or fl:
        check_minmax(rec, sub, fields, text, pp, finest=fl)
    if has_var:
        m_ = re.search(r"Search results: (.*)", text)
        for v in has_var:
            want = "'%s' %s" % (v, "found" if v in labels else "not found")
            if not m_ or want not in m_.group(1):
                rec.fail("menu_search_result", dict(sub, searched=v), "expected %r in %r" % (want, m_.group(1) if m_ else None))
    if description or every:
        title = "All known fields:" if every else "Fields found in file:"
        L = text.split("\n")
        rows = None
        for i, l in enumerate(L):
            if title in l:
                caps = [j for j in range(i, len(L)) if L[j].startswith("+")]
                if len(caps) >= 3:
                    rows = L[caps[1] + 1:caps[2]]
                break
        if rows is None:
            rec.fail("menu_description_listing_missing", sub, "no %r table although it was requested" % title)
        else:
            names_ = [r_.split(" : ")[0].strip() for r_ in rows if " : " in r_]
            if every:
                names_ = [re.sub(r"\s+(Yes|No)$", "", n_) for n_ in names_ if re.search(r"\sYes$", n_)]
            for lab in labels:
                if names_.count(lab) != 1:
                    rec.fail("menu_description_listing", dict(sub, field=lab), "%r appears %d times among the listed %r" % (lab, names_.count(lab), names_))
    if not (mm or fl or has_var or description or every):
        check_default(rec, sub, fields, text, db)


MODES = [(False, False), (True, False), (False, True), (True, True)]


def run_case(case, workdir):
    from amr_kitchen.menu import Menu
    import amr_kitchen.minuterie as minuterie
    import amr_kitchen.marinate as marinate
    rec = Rec()
    if case.get("nanpair"):
        run_nanpair(case, workdir, rec)
        rec.sample({"desc": case["desc"], "nan_pair": True})
        return rec.result()
    desc, desc2 = case["desc"], case["desc2"]
    path, ref = build(desc, workdir, case["names"][0])
    path2, ref2 = build(desc2, workdir, case["names"][1])
    pp = ParsedPlot(path)
    dh = h64([desc, desc2])
    pristine = copy.deepcopy(Menu.field_info)

    def reset():
        Menu.field_info = copy.deepcopy(pristine)
    # ---- minuterie
    with Captured(["minuterie", path]) as c:
        st, val = call(minuterie.main)
    rec.exe([dh, "minuterie"])
    m = re.search(r"Plotfile time = (\S+)", c.text)
    if st == "exc":
        rec.fail("minuterie_raised", {}, exc_text(val))
    elif not m or not same_value(float(m.group(1)), ref.time):
        rec.fail("minuterie_time", {}, "printed %r, header time %r" % (c.text.strip(), ref.time))
    # ---- menu, fresh state
    fresh = {}
    for pth, d, r_, tag in ((path, desc, ref, "A"), (path2, desc2, ref2, "B")):
        for mm, fl in MODES:
            reset()
            st, val, text = run_menu(pth, mm, fl)
            fresh[(tag, mm, fl)] = (st, text if st == "ok" else exc_text(val))
            if tag != "A":
                continue
            sub = {"tool": "menu", "min_max": mm, "finest_lv": fl}
            rec.exe([dh, sub])
            if st == "exc":
                rec.fail("menu_raised", sub, exc_text(val))
                continue
            if not mm and not fl:
                check_default(rec, sub, d["fields"], text, pristine)
            else:
                check_minmax(rec, sub, d["fields"], text, pp, finest=fl)
    # ---- the width of the terminal is part of the environment (COLUMNS): whatever it is, every field and species is listed once
    for cols in ("200", "48", "20"):
        reset()
        oldc = os.environ.get("COLUMNS")
        os.environ["COLUMNS"] = cols
        try:
            st, val, text = run_menu(path, False, False)
        finally:
            if oldc is None:
                os.environ.pop("COLUMNS", None)
            else:
                os.environ["COLUMNS"] = oldc
        sub = {"tool": "menu", "min_max": False, "finest_lv": False, "COLUMNS": cols}
        rec.exe([dh, sub])
        if st == "exc":
            rec.fail("menu_raised", sub, exc_text(val))
        else:
            check_default(rec, sub, desc["fields"], text, pristine)
    # ---- every combination of the five options on the first plotfile (the printed parts are cumulative)
    labs = [category(f, pristine) or f for f in desc["fields"]]
    for hv in (None, [labs[0], "nope_zz"]):
        for every in (False, True):
            for description in (False, True):
                for mm, fl in MODES:
                    if hv is None and not every and not description:
                        continue          # done above
                    reset()
                    from amr_kitchen.menu import Menu as _Menu
                    with Captured() as c_:
                        with vpool.controlled():
                            st, val = call(lambda: _Menu(path, has_var=hv, every=every, description=description, min_max=mm, finest_lv=fl))
                    sub = {"tool": "menu", "min_max": mm, "finest_lv": fl, "has_var": hv, "every": every, "description": description}
                    rec.exe([dh, sub])
                    if st == "exc":
                        rec.fail("menu_raised", sub, exc_text(val))
                        continue
                    check_combination(rec, sub, desc["fields"], c_.text, pp, pristine, mm, fl, hv, every, description)
    # ---- histories of two menu calls in one process
    for (t1, p1), (t2, p2) in ((("A", path), ("B", path2)), (("B", path2), ("A", path))):
        for m1 in MODES:
            for m2 in MODES:
                reset()
                run_menu(p1, *m1)
                st, val, text = run_menu(p2, *m2)
                got = (st, text if st == "ok" else exc_text(val))
                sub = {"tool": "menu", "history": [[t1, list(m1)], [t2, list(m2)]]}
                rec.exe([dh, sub], trans=2)
                if got != fresh[(t2,) + m2]:
                    rec.fail("menu_history_dependent", sub, "second call prints something else than in a fresh process")
    # depth 3: A, B, then A or B again - all 4x4x4 mode triples
    if case.get("triples"):
        import itertools as _it
        for (t1, p1), (t2, p2), (t3, p3) in ((("A", path), ("B", path2), ("A", path)), (("B", path2), ("A", path), ("B", path2)),
                                             (("A", path), ("A", path), ("B", path2))):
            for m1, m2, m3 in _it.product(MODES, repeat=3):
                reset()
                run_menu(p1, *m1)
                run_menu(p2, *m2)
                st, val, text = run_menu(p3, *m3)
                got = (st, text if st == "ok" else exc_text(val))
                rec.exe([dh, "triple", t1, t2, t3, m1, m2, m3], trans=3)
                if got != fresh[(t3,) + m3]:
                    rec.fail("menu_history_dependent", {"tool": "menu", "history": [[t1, list(m1)], [t2, list(m2)], [t3, list(m3)]]},
                             "third call prints something else than in a fresh process")
    reset()
    # ---- marinate (not on the twelve-level plotfile: the ghost map of its finest level would take gigabytes)
    if case.get("no_marinate"):
        reset()
        rec.sample({"desc": desc, "second_plotfile_fields": desc2["fields"]})
        return rec.result()
    with Captured(["marinate", path]) as c:
        with vpool.controlled():
            st, val = call(marinate.main)
    rec.exe([dh, "marinate"])
    if st != "exc" and ref2.ndims == 3:
        # the second plotfile of the directory is marinated too: each plotfile has its own pickle
        with Captured(["marinate", path2]) as cB:
            with vpool.controlled():
                call(marinate.main)
        rec.exe([dh, "marinate_sibling"])
    if st == "exc":
        if ref.ndims == 3:
            rec.fail("marinate_raised", {}, exc_text(val))
    else:
        try:
            with open(path + ".pkl", "rb") as f:
                up = pickle.load(f)
            probs = []
            if list(up.fields.keys()) != desc["fields"] or up.ndims != ref.ndims or not same_value(up.time, ref.time):
                probs.append("fields/ndims/time")
            if list(up.geo_low) != ref.geo_lo or list(up.geo_high) != ref.geo_hi:
                probs.append("geometry")
            with vpool.controlled():
                for lv in range(ref.nlevels):
                    pl = pp.levels[lv]
                    if [tuple(int(v) for v in i[0]) for i in up.cells[lv]["indexes"]] != [b[0] for b in ref.boxes[lv]]:
                        probs.append("indexes level %d" % lv)
                    if [int(o) for o in up.cells[lv]["offsets"]] != pl.offsets:
                        probs.append("offsets level %d" % lv)
                    for fi, f in enumerate(desc["fields"]):
                        if not all(same_value(float(a), float(b)) for a, b in zip(up.cells[lv]["mins"][f], [r[fi] for r in pl.mins])):
                            probs.append("mins level %d %s" % (lv, f))
                    for b in range(len(ref.boxes[lv])):
                        if not bits_equal(up[:][lv][b], ref.data[lv][b]):
                            probs.append("box data level %d box %d" % (lv, b))
            if probs:
                rec.fail("marinate_unpickled_differs", {}, "; ".join(probs[:4]))
            # history: the plotfile is rewritten IN PLACE (same names), then marinated again
            import shutil
            d3 = dict(desc, seed=desc.get("seed", 0) + 3, time=-7.5, payload="signed")
            for root_, dirs_, files_ in os.walk(path):
                pass
            tmp = os.path.join(workdir, "rewrite")
            from ..refmodel import write_plotfile
            ref3 = write_plotfile(d3, tmp)
            for root_, dirs_, files_ in os.walk(tmp):
                for fn_ in files_:
                    src = os.path.join(root_, fn_)
                    dst = os.path.join(path, os.path.relpath(src, tmp))
                    with open(src, "rb") as fi, open(dst, "wb") as fo:      # overwrite in place, no entry added or removed
                        fo.write(fi.read())
            # (the pickle of the EARLIER contents still lies beside the plotfile: the header-only tools report what the plotfile
            # holds now)
            pp3 = ParsedPlot(path)
            for mm_, fl_ in ((True, False), (True, True)):
                reset()
                st7, val7, text7 = run_menu(path, mm_, fl_)
                rec.exe([dh, "menu_after_marinate_and_rewrite", mm_, fl_], trans=3)
                sub7 = {"tool": "menu", "min_max": mm_, "finest_lv": fl_, "history": "marinated, then rewritten in place, then menu"}
                if st7 == "exc":
                    rec.fail("menu_raised", sub7, exc_text(val7))
                else:
                    check_minmax(rec, sub7, d3["fields"], text7, pp3, finest=fl_)
            with Captured(["minuterie", path]) as c7:
                st8, val8 = call(minuterie.main)
            m8 = re.search(r"Plotfile time = (\S+)", c7.text)
            if st8 == "exc" or not m8 or not same_value(float(m8.group(1)), -7.5):
                rec.fail("minuterie_stale", {"history": "marinated, then rewritten in place, then minuterie"}, "printed %r, the header says -7.5" % c7.text.strip()[:80])
            reset()
            with Captured(["marinate", path]) as c2:
                with vpool.controlled():
                    st4, val4 = call(marinate.main)
            rec.exe([dh, "marinate_after_rewrite"], trans=2)
            if st4 == "exc":
                rec.fail("marinate_raised", {"history": "rewritten in place, marinated again"}, exc_text(val4))
            else:
                with open(path + ".pkl", "rb") as f:
                    up2 = pickle.load(f)
                with vpool.controlled():
                    okd = all(bits_equal(up2[:][lv][b], ref3.data[lv][b]) for lv in range(ref3.nlevels) for b in range(len(ref3.boxes[lv])))
                if not same_value(up2.time, -7.5) or not okd:
                    rec.fail("marinate_stale", {"history": "plotfile rewritten in place, marinated again"},
                             "the second pickle does not hold the rewritten plotfile (time %r)" % up2.time)
        except Exception as e:
            rec.fail("marinate_unpickle", {}, exc_text(e))
    # ---- marinate 'lnk/../name' where lnk is a symbolic link to a directory elsewhere: the plotfile is the one next to the
    # link's TARGET (what the operating system and a fresh reader open), not the one of the same name next to the link
    if ref2.ndims == 3:
        from .. import audit
        os.makedirs(os.path.join(workdir, "deep", "sub"))
        os.symlink(os.path.join("deep", "sub"), os.path.join(workdir, "lnk"))
        real, refr = build(dict(desc2, time=-9.5), os.path.join(workdir, "deep"), os.path.basename(path))
        arg = os.path.join("lnk", "..", os.path.basename(path))
        os.chdir(workdir)
        with Captured(["marinate", arg]) as cL:
            with vpool.controlled():
                with audit.recording() as evL:
                    stL, valL = call(marinate.main)
        rec.exe([dh, "marinate_symlink_dotdot"])
        pk = [p_ for e_, p_ in evL if e_ == "open_w" and p_.endswith(".pkl")]
        if stL == "exc":
            rec.fail("marinate_raised", {"argument": arg}, exc_text(valL))
        elif len(pk) != 1:
            rec.fail("marinate_pickle_count", {"argument": arg}, "%r" % pk)
        else:
            with open(pk[0], "rb") as f:
                upL = pickle.load(f)
            if list(upL.fields.keys()) != desc2["fields"] or not same_value(upL.time, -9.5):
                rec.fail("marinate_wrong_plotfile", {"argument": arg}, "the pickle holds fields %r time %r; the plotfile at that path has %r, -9.5"
                         % (list(upL.fields.keys()), upL.time, desc2["fields"]))
            os.remove(pk[0])
    # ---- history: the second plotfile is read, rewritten IN PLACE (same names, other time and data), and read again
    def minute(pth):
        with Captured(["minuterie", pth]) as c_:
            st_, val_ = call(minuterie.main)
        m_ = re.search(r"Plotfile time = (\S+)", c_.text)
        return st_, (float(m_.group(1)) if m_ else None)
    minute(path2)
    reset()
    run_menu(path2, True, False)
    d4 = dict(desc2, seed=desc2.get("seed", 0) + 4, time=-3.25)
    tmp2 = os.path.join(workdir, "rewrite2")
    from ..refmodel import write_plotfile as _wp
    _wp(d4, tmp2)
    for root_, dirs_, files_ in os.walk(tmp2):
        for fn_ in files_:
            src = os.path.join(root_, fn_)
            with open(src, "rb") as fi, open(os.path.join(path2, os.path.relpath(src, tmp2)), "wb") as fo:
                fo.write(fi.read())
    st5, t5 = minute(path2)
    rec.exe([dh, "minuterie_after_rewrite"], trans=2)
    if st5 == "exc" or t5 is None or not same_value(t5, -3.25):
        rec.fail("minuterie_stale", {"history": "header rewritten in place between two calls"}, "second call printed %r, the header says -3.25" % (t5,))
    reset()
    st6, val6, text6 = run_menu(path2, True, False)
    rec.exe([dh, "menu_after_rewrite"], trans=2)
    if st6 == "exc":
        rec.fail("menu_raised", {"history": "plotfile rewritten in place between two calls"}, exc_text(val6))
    else:
        check_minmax(rec, {"tool": "menu", "min_max": True, "finest_lv": False, "history": "plotfile rewritten in place between two calls"},
                     d4["fields"], text6, ParsedPlot(path2), finest=False)
    reset()
    rec.sample({"desc": desc, "second_plotfile_fields": desc2["fields"]})
    return rec.result()


SIGNATURES = {}
