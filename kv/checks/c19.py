"""C19 - point queries at interior cell centres return the stored cell value."""
import itertools
import numpy as np
from .. import scope, vpool
from ..common import build, call, exc_text
from ..runner import Rec, h64

PROPERTY = "C19"
LEVEL = "model_checking"
RULE = ("case = generated 3D plotfile (1..3 levels, two origins x three cell shapes fully crossed, box-affine payload "
        "distinct per level and field); execution = one query pck[fsel](x,y,z) at the centre of a cell that is not "
        "covered by a finer level and lies at least one cell inside its box - EVERY such cell is queried - for a single "
        "and a multiple field selection, compared with the stored value (tolerance 1e-6, value separations >= 1); plus "
        "points outside the domain on every side, which must be refused; non-trivial = every query")
ASSUMPTIONS = ["payload affine in the cell index per level, so that the tool's spline evaluation is exact at cell centres",
               "controlled in-process pool"]


def bounds(tier):
    return {"levels": [1, 2, 3], "geometry": "2 origins x 3 cell shapes", "cells": "all eligible interior cell centres",
            "selections": ["name", "name list", "slice"]}


def meshes(tier):
    ms = [
        {"ndims": 3, "domain": [4, 4, 4], "levels": [[[[0, 0, 0], [3, 3, 3]]]]},
        {"ndims": 3, "domain": [8, 4, 4], "levels": [[[[0, 0, 0], [3, 3, 3]], [[4, 0, 0], [7, 3, 3]]],
                                                    [[[4, 2, 2], [9, 7, 7]], [[10, 0, 0], [15, 3, 3]]]]},
        {"ndims": 3, "domain": [4, 4, 4], "levels": [[[[0, 0, 0], [3, 3, 3]]],
                                                    [[[0, 0, 0], [7, 3, 7]], [[0, 4, 0], [3, 7, 7]]],
                                                    [[[2, 2, 2], [9, 5, 9]]]]},
    ]
    # boxes listed in DEscending order of their corners (AMReX guarantees no order)
    ms.append({"ndims": 3, "domain": [8, 4, 4], "levels": [[[[4, 0, 0], [7, 3, 3]], [[0, 0, 0], [3, 3, 3]]],
                                                          [[[10, 0, 0], [15, 3, 3]], [[4, 2, 2], [9, 7, 7]], [[0, 0, 0], [3, 3, 3]]]]})
    if tier == "thorough":
        from . import c07
        for m in c07.base_meshes("thorough"):
            # boxes at least 4 cells wide so that interior cells exist
            ms.append({"ndims": 3, "domain": [2 * a for a in m["domain"]],
                       "levels": [[[[2 * a for a in lo], [2 * a + 1 for a in hi]] for lo, hi in lv] for lv in m["levels"]]})
        ms.append({"ndims": 3, "domain": [6, 4, 4], "levels": [[[[0, 0, 0], [1, 3, 3]], [[2, 0, 0], [5, 3, 3]]],
                                                               [[[2, 0, 0], [7, 7, 3]], [[2, 0, 4], [5, 3, 7]], [[8, 4, 4], [11, 7, 7]]],
                                                               [[[6, 2, 0], [11, 7, 5]]]]})
    return ms


def cases(tier, seed):
    out = []
    for mi, mesh in enumerate(meshes(tier)):
        geos = list(scope.geometries(3))
        for geo in ((geos + scope.extreme_geometries(3)) if mi < 4 else [geos[(mi + seed) % 6], geos[(mi + seed + 3) % 6]]):
            d = dict(mesh)
            d.update(geo)
            d.update({"fields": ["temp", "density", "Z"], "payload": "affidx", "seed": seed,
                      "layout": [scope.layouts(len(b), 'idrev')[-1] for b in mesh["levels"]]})
            out.append({"desc": d, "w": len(mesh["levels"]) ** 2})
        # a domain that straddles the coordinate origin with cell centres AT zero (exactly in y and z, up to rounding in x),
        # non-finite values elsewhere in the boxes
        d = dict(mesh)
        d.update({"origin": [-0.15, -0.75, -0.0625], "dx0": [0.1, 0.5, 0.125]})
        d.update({"fields": ["temp", "density", "Z"], "payload": ["affidx", "affidx+hostile", "affidx*1e-15"], "seed": seed,
                  "layout": [scope.layouts(len(b), 'idrev')[-1] for b in mesh["levels"]]})
        out.append({"desc": d, "w": len(mesh["levels"]) ** 2})
        # fields of very different magnitudes, and non-finite values in OTHER cells of the boxes (corner cells, never the
        # interior cell that is queried): the stored value of the queried cell is what comes back, for every field
        d = dict(mesh)
        d.update(list(scope.geometries(3))[(mi + seed) % 6])
        d.update({"fields": ["temp", "density", "Z"], "payload": ["affidx*1e12", "affidx+hostile+nfinterior", "affidx*1e-15"], "seed": seed,
                  "layout": [scope.layouts(len(b), 'idrev')[0] for b in mesh["levels"]]})
        out.append({"desc": d, "w": len(mesh["levels"]) ** 2})
    # level directories named otherwise than Level_k
    m_ = meshes(tier)[1]
    d = dict(m_)
    d.update(list(scope.geometries(3))[(seed + 4) % 6])
    d.update({"fields": ["temp", "density", "Z"], "payload": "affidx", "seed": seed, "levelprefix": "Lev_",
              "layout": [scope.layouts(len(b), 'idrev')[-1] for b in m_["levels"]]})
    out.append({"desc": d, "w": 4})
    # binary file numbers of different widths (Cell_D_10000 beside Cell_D_100000, Cell_D_99999 beside Cell_D_100000): two equal
    # boxes per level, each in its own file, so that a FAB of the same shape sits at the same offset of the look-alike file
    for first in (0, 1):
        d = {"ndims": 3, "domain": [8, 4, 4], "levels": [[[[0, 0, 0], [3, 3, 3]], [[4, 0, 0], [7, 3, 3]]],
                                                       [[[0, 0, 0], [3, 3, 3]], [[4, 0, 0], [7, 3, 3]], [[8, 0, 0], [11, 3, 3]]]]}
        d.update(list(scope.geometries(3))[(seed + first) % 6])
        d.update({"fields": ["temp", "density", "Z"], "payload": "affidx", "seed": seed,
                  "layout": [scope.wide_numbers({"files": [[1], [0]], "nums": [0, 1]}, first),
                             scope.wide_numbers({"files": [[2], [0], [1]], "nums": [1, 0, 2]}, first)]})
        out.append({"desc": d, "w": 4})
    # twelve levels (Level_10, Level_11)
    from .c02 import chain_mesh
    cm = chain_mesh(3, 12)
    d = dict(cm)
    d.update(list(scope.geometries(3))[(seed + 2) % 6])
    d.update({"fields": ["temp", "density", "Z"], "payload": "affidx", "seed": seed, "layout": [None] * 12})
    out.append({"desc": d, "w": 30})
    # seven levels towards the far corner, twelve fields: FAB header lines longer than 100 bytes
    d = dict(scope.deep_corner_mesh())
    d.update(list(scope.geometries(3))[(seed + 1) % 6])
    d.update({"fields": ["temp", "density", "Z"] + ["p%d" % i for i in range(9)], "payload": "affidx", "seed": seed,
              "layout": [scope.layouts(2, 'idrev')[-1]] * 7})
    out.append({"desc": d, "w": 30})
    return out


def close(got, exp, tol):
    """|got - exp| <= tol, a stored NaN answered by NaN, a stored infinity by the same infinity"""
    with np.errstate(invalid="ignore"):
        return (np.abs(got - exp) <= tol) | (np.isnan(got) & np.isnan(exp)) | (got == exp)


def run_case(case, workdir):
    from amr_kitchen import PlotfileCooker
    rec = Rec()
    desc = case["desc"]
    path, ref = build(desc, workdir)
    dh = h64(desc)
    names = desc["fields"]
    with vpool.controlled():
        pck = PlotfileCooker(path)
        sels = [("name", names[1], [1]), ("names", [names[2], names[0]], [2, 0]), ("slice", slice(0, 2), [0, 1]),
                ("names_adjacent_descending", [names[1], names[0]], [1, 0]), ("list_adjacent_descending", [2, 1], [2, 1])]
        # slices of different widths and offsets following one another in one process: a one-field slice, a longer one that
        # starts at 0, an open-ended one, a strided one
        sels += [("slice_one", slice(1, 2), [1]), ("slice_three", slice(0, 3), [0, 1, 2]), ("slice_open", slice(1, None), list(range(1, len(names)))),
                 ("slice_step", slice(0, None, 2), list(range(0, len(names), 2)))]
        if len(names) >= 8:
            # a run of adjacent fields followed by a further one, an unsorted array
            sels += [("list_run_then_far", [2, 3, 7], [2, 3, 7]), ("names_run_then_far", [names[0], names[1], names[2], names[5]], [0, 1, 2, 5]),
                     ("array_unsorted", np.array([6, 7, 1]), [6, 7, 1])]
        reused = {tag: pck[sel] for tag, sel, fidx in sels}      # ONE selector object per form, queried again and again
        nlev = ref.nlevels
        remembered = []         # (level, box, cell, point) of a few interior cells per box, asked again at the end
        for lv in range(nlev):
            for b, (lo, hi) in enumerate(ref.boxes[lv]):
                covered = ref.covered_mask(lv, b, nlev - 1)
                shape = covered.shape
                for loc in itertools.product(*[range(1, s - 1) for s in shape]):
                    if covered[loc]:
                        continue
                    g = [lo[d] + loc[d] for d in range(3)]
                    pt = [ref.geo_lo[d] + (g[d] + 0.5) * ref.dx[lv][d] for d in range(3)]
                    # other spellings of the same centre: 1e-11 cell beside the computed value, a coordinate of rounding size given as literal 0.0
                    spell = [pt]
                    if sum(loc) % 2 == 0:
                        spell.append([x_ + 1e-11 * ref.dx[lv][d_] for d_, x_ in enumerate(pt)])          # (1e-11 cell beside the computed value)
                        if any(0 < abs(x_) < 1e-12 for x_ in pt) and min(ref.dx[lv]) > 1e-3:
                            spell.append([0.0 if abs(x_) < 1e-12 else x_ for x_ in pt])
                    for tag, sel, fidx in sels[:2]:
                        for pt_ in spell[1:]:
                            st_, val_ = call(lambda: pck[sel](*pt_))
                            rec.exe([dh, lv, g, tag, "spelling", pt_], nontrivial=True)
                            exp_ = np.array([ref.data[lv][b][loc + (f,)] for f in fidx])
                            tol_ = np.array([1e-9 * float(np.max(np.abs(ref.data[lv][b][..., f][np.isfinite(ref.data[lv][b][..., f])]))) for f in fidx]) + 1e-300
                            got_ = np.atleast_1d(np.asarray(val_, dtype=float)).ravel() if st_ != "exc" else None
                            if st_ == "exc" or got_.shape != exp_.shape or not np.all(close(got_, exp_, tol_)):
                                rec.fail("values", {"level": lv, "box": b, "cell": g, "point": pt_, "selection": tag, "spelling_of": pt},
                                         "returned %r, stored %r" % (exc_text(val_) if st_ == "exc" else got_.tolist(), exp_.tolist()))
                    if sum(1 for r_ in remembered if r_[0] == lv and r_[1] == b) < 3:
                        remembered.append((lv, b, loc, g, pt))
                    for tag, sel, fidx in sels:
                        st, val = call(lambda: pck[sel](*pt))
                        sub = {"level": lv, "box": b, "cell": g, "point": pt, "selection": tag}
                        rec.exe([dh, lv, g, tag], nontrivial=True)
                        if st == "exc":
                            rec.fail("raised", sub, exc_text(val))
                            continue
                        exp = np.array([ref.data[lv][b][loc + (f,)] for f in fidx])
                        # (accuracy relative to the largest finite magnitude of the field in the box: the query may go
                        # through an interpolation filter over the whole box)
                        tol = np.array([1e-9 * float(np.max(np.abs(ref.data[lv][b][..., f][np.isfinite(ref.data[lv][b][..., f])]))) for f in fidx]) + 1e-300
                        got = np.atleast_1d(np.asarray(val, dtype=float)).ravel()
                        if got.shape != exp.shape or not np.all(close(got, exp, tol)):
                            rec.fail("values", sub, "returned %r, stored %r" % (got.tolist(), exp.tolist()))
                        st2, val2 = call(lambda: reused[tag](*pt))
                        rec.exe([dh, lv, g, tag, "reused"], nontrivial=True)
                        if st2 == "exc":
                            rec.fail("history_raised", dict(sub, selector="re-used object"), exc_text(val2))
                        else:
                            got2 = np.atleast_1d(np.asarray(val2, dtype=float)).ravel()
                            if got2.shape != exp.shape or not np.all(close(got2, exp, tol)):
                                rec.fail("history_dependent", dict(sub, selector="re-used object"),
                                         "a selector object queried before returned %r, stored %r" % (got2.tolist(), exp.tolist()))
        # history: the caller also asks at points that are NOT interior cell centres - on the faces and corners of every box, between
        # boxes, on level boundaries (whatever is answered there is not judged: the statement is about interior centres) - and then
        # asks at interior cell centres again, through the same reader
        for lv in range(nlev):
            for b, (lo, hi) in enumerate(ref.boxes[lv]):
                for corner in itertools.product((0, 1), repeat=3):
                    ptf = [ref.geo_lo[d] + ((hi[d] + 1) if corner[d] else lo[d]) * ref.dx[lv][d] for d in range(3)]
                    ptm = [ref.geo_lo[d] + (((hi[d] + 1) if corner[d] else lo[d]) if d == 0 else (lo[d] + hi[d] + 1) / 2.0) * ref.dx[lv][d] for d in range(3)]
                    for p_ in (ptf, ptm):
                        for tag, sel, fidx in sels[:3]:
                            call(lambda: pck[sel](*p_))
        for lv, b, loc, g, pt in remembered:
            for tag, sel, fidx in sels[:3]:
                st, val = call(lambda: pck[sel](*pt))
                rec.exe([dh, lv, g, tag, "after_face_queries"], nontrivial=True)
                sub = {"level": lv, "box": b, "cell": g, "point": pt, "selection": tag, "history": "queries on box faces and corners first"}
                exp = np.array([ref.data[lv][b][loc + (f,)] for f in fidx])
                tol = np.array([1e-9 * float(np.max(np.abs(ref.data[lv][b][..., f][np.isfinite(ref.data[lv][b][..., f])]))) for f in fidx]) + 1e-300
                got = np.atleast_1d(np.asarray(val, dtype=float)).ravel() if st != "exc" else None
                if st == "exc" or got.shape != exp.shape or not np.all(close(got, exp, tol)):
                    rec.fail("history_dependent", sub, "returned %r, stored %r" % (exc_text(val) if st == "exc" else got.tolist(), exp.tolist()))
        # outside the domain: every side, half a coarse cell and five cells out
        mid = [0.5 * (a + b) for a, b in zip(ref.geo_lo, ref.geo_hi)]
        for d in range(3):
            for side, far in itertools.product((-1, 1), (0.5, 5.0)):
                pt = list(mid)
                pt[d] = (ref.geo_lo[d] - far * ref.dx[0][d]) if side < 0 else (ref.geo_hi[d] + far * ref.dx[0][d])
                st, val = call(lambda: pck[names[0]](*pt))
                rec.exe([dh, "outside", d, side, far], nontrivial=True)
                if st != "exc":
                    rec.fail("outside_answered", {"point": pt}, "returned %r" % (np.asarray(val).tolist(),))
        # history across plotfiles: the SAME selection objects (lists of names) the caller used above, now on a second plotfile
        # that stores the same fields in another order - a selection argument belongs to the caller and names fields, not columns
        d2 = dict(desc, fields=list(reversed(names)), seed=desc.get("seed", 0) + 5)
        if isinstance(desc["payload"], list):
            d2["payload"] = list(reversed(desc["payload"]))
        path2, ref2 = build(d2, workdir, "plt00001")
        pck2 = PlotfileCooker(path2)
        lv = ref2.nlevels - 1
        for b, (lo, hi) in enumerate(ref2.boxes[lv]):
            shape = tuple(h - l + 1 for l, h in zip(lo, hi))
            if min(shape) < 3:
                continue
            loc = tuple(s_ // 2 for s_ in shape)
            g = [lo[d] + loc[d] for d in range(3)]
            pt = [ref2.geo_lo[d] + (g[d] + 0.5) * ref2.dx[lv][d] for d in range(3)]
            for tag, sel, fidx in sels:
                if not tag.startswith("names"):          # (by tag: the list object itself may have been tampered with)
                    continue
                st, val = call(lambda: pck2[sel](*pt))
                rec.exe([dh, "second_plotfile", b, tag], nontrivial=True, trans=2)
                sub = {"history": "selection list used on another plotfile before", "selection": tag, "list_now": [str(x) for x in sel], "point": pt}
                if st == "exc":
                    rec.fail("history_raised", sub, exc_text(val))
                    continue
                exp = np.array([ref2.data[lv][b][loc + (d2["fields"].index(names[f]),)] for f in fidx])
                got = np.atleast_1d(np.asarray(val, dtype=float)).ravel()
                with np.errstate(invalid="ignore"):
                    okv = got.shape == exp.shape and bool(np.all((np.abs(got - exp) <= 1e-9 * np.abs(exp) + 1e-300) | ~np.isfinite(exp)))
                if not okv:
                    rec.fail("history_dependent", sub, "returned %r, the named fields hold %r" % (got.tolist(), exp.tolist()))
            break
    rec.sample({"desc": desc, "queries": "every eligible interior cell centre x 3 selections; 12 outside points"})
    return rec.result()


SIGNATURES = {}
