"""C07 - mandoline 3D slices interpolate the right samples at every pixel."""
import itertools
import numpy as np
from .. import scope, vpool
from ..common import build, call, exc_text, poisoned, has_poison
from ..slicemodel import SliceModel, EPS
from ..runner import Rec, h64

PROPERTY = "C07"
LEVEL = "model_checking"
RULE = ("case = generated 3D plotfile (1..3 nested levels, fine boxes adjacent / separated along the normal and touching "
        "domain faces, three axis rotations, two origins x cell shapes) x normal; execution = one "
        "Mandoline(...).slice(normal, pos, fformat='return') at a lattice position (EVERY multiple of a quarter of the "
        "finest cell over the closed domain, for dyadic and non-dyadic geometry alike), for a field "
        "list x limit x serial/parallel x two np.empty poison patterns, judged per pixel: field affine along the normal = "
        "a+b*pos, field constant along the normal = covering data, general field = lerp of the two bracket samples of the "
        "finest level containing the point when both exist there, otherwise membership in the finite candidate set; no "
        "poison; grid_level integral and a level with a box there; coordinates; default position; outside refused; "
        "non-trivial = every in-domain slice")
ASSUMPTIONS = ["np.empty of the mandoline module returns poison (two patterns); positions are exact lattice points",
               "where the bracket of the finest containing level is incomplete (refinement / domain boundary) the statement leaves "
               "the value open: the whole finite candidate set of sample pairs is accepted there",
               "tolerance 64 eps (|l|+|r|) on interpolated values"]
MODS = ["amr_kitchen.mandoline.mandoline"]


def bounds(tier):
    # (positions: every lattice point and, beside each interior one, +-1 ulp and +-1e-9 finest cell)
    return {"levels": [1, 2, 3], "positions": "all lattice points (quarter of finest cell)", "normals": [0, 1, 2],
            "field_lists": ["A", "A C G", "G grid_level", "all", "G A (not header order)", "C grid_level A", "C G A and G A H C (rotations)"], "limit": "None, 0..finest", "modes": ["serial", "parallel"]}


def rot(mesh, r):
    """cyclic rotation of the axes of a mesh descriptor"""
    def p(v):
        return [v[(i + r) % 3] for i in range(3)]
    return {"ndims": 3, "domain": p(mesh["domain"]),
            "levels": [[[p(lo), p(hi)] for lo, hi in lv] for lv in mesh["levels"]]}


def base_meshes(tier):
    ms = [
        # one level, two boxes adjacent along x, a third along y
        {"ndims": 3, "domain": [8, 4, 4], "levels": [[[[0, 0, 0], [3, 3, 3]], [[4, 0, 0], [7, 1, 3]], [[4, 2, 0], [7, 3, 3]]]]},
        # two levels: fine boxes adjacent along x, one separated, one touching a domain face
        {"ndims": 3, "domain": [8, 4, 4], "levels": [[[[0, 0, 0], [7, 3, 3]]],
                                                    [[[2, 2, 2], [5, 5, 5]], [[6, 2, 2], [9, 5, 5]], [[12, 0, 0], [15, 3, 7]]]]},
        # three levels
        {"ndims": 3, "domain": [4, 4, 4], "levels": [[[[0, 0, 0], [1, 3, 3]], [[2, 0, 0], [3, 3, 3]]],
                                                    [[[0, 0, 0], [3, 3, 7]], [[4, 2, 2], [7, 5, 5]]],
                                                    [[[2, 2, 2], [5, 5, 5]], [[10, 6, 6], [13, 9, 9]]]]},
    ]
    if tier == "thorough":
        # one level-0 box, every set of <= 2 fine boxes on a 4-cell lattice; and a two-box level 0 under them
        for l0 in ([[[0, 0, 0], [3, 3, 3]]], [[[0, 0, 0], [1, 3, 3]], [[2, 0, 0], [3, 3, 3]]]):
            coarse = [(tuple(lo), tuple(hi)) for lo, hi in l0]
            for fs in scope.fine_box_sets(coarse, [8, 8, 8], 4, 2):
                ms.append({"ndims": 3, "domain": [4, 4, 4], "levels": [l0, [[list(lo), list(hi)] for lo, hi in fs]]})
    return ms


GEOS = [({"origin": [0.0, 0.0, 0.0], "dx0": [0.25, 0.25, 0.25]}, True),
        ({"origin": [1.0, -2.0, 0.5], "dx0": [0.25, 0.5, 0.125]}, True),
        ({"origin": [1.0, -2.0, 0.5], "dx0": [0.1, 0.3, 0.7]}, False),
        (dict(scope.FAR), True), (dict(scope.MICRO), True)]


def cases(tier, seed):
    out = []
    for mi, base in enumerate(base_meshes(tier)):
        for r in (range(3) if mi < 3 else [mi % 3]):
            mesh = rot(base, r)
            for n in range(3):
                for gi, (geo, dyadic) in enumerate(GEOS):
                    if gi >= 3:
                        # far origin / tiny cells: one rotation per mesh and normal
                        if r != (mi + n) % 3 or mi >= 3:
                            continue
                    elif (tier == "quick" or mi >= 3) and gi != (mi + r + n + seed) % 3 and not (gi == 1 and r == 0 and mi < 3):
                        continue
                    d = dict(mesh)
                    d.update(geo)
                    d.update({"fields": ["A", "C", "G", "H"], "payload": ["affine%d" % n, "const%d" % n, "coded", "hconst%d" % n], "seed": seed,
                              "layout": [scope.layouts(len(b), 'idrev')[-1 if (mi + r) % 2 else 0] for b in mesh["levels"]]})
                    out.append({"desc": d, "normal": n, "dyadic": dyadic, "w": len(mesh["levels"])})
    for n in (0, 2):
        out.append({"desc": deep_desc(seed, n), "normal": n, "dyadic": True, "deep": True, "w": 8})
    # level directories named otherwise than Level_k
    base = base_meshes(tier)[1]
    d = dict(rot(base, 1))
    d.update(GEOS[1][0])
    d.update({"fields": ["A", "C", "G", "H"], "payload": ["affine1", "const1", "coded", "hconst1"], "seed": seed, "levelprefix": "Lev_",
              "layout": [scope.layouts(len(b), 'idrev')[-1] for b in d["levels"]]})
    out.append({"desc": d, "normal": 1, "dyadic": GEOS[1][1], "w": len(d["levels"])})
    return out


def deep_desc(seed, n=0):
    """seven levels towards the far corner, twelve fields: FAB header lines longer than 100 bytes.  The dense slice
    model would need gigabytes here; the oracle is the closed form of the field affine along the normal."""
    d = dict(scope.deep_corner_mesh())
    d.update({"origin": [1.0, -2.0, 0.5], "dx0": [0.25, 0.5, 0.125]})
    L2 = scope.layouts(2, 'idrev')
    d.update({"fields": ["A", "C", "G"] + ["p%d" % i for i in range(9)], "payload": ["affine%d" % n, "const%d" % n, "coded"] + ["signed"] * 9,
              "seed": seed, "layout": [None, L2[-1], None, L2[1], None, L2[2], L2[-1]]})
    return d


def deep_positions(ref, n):
    """positions (in finest cells from the low face) around the corner boxes and in the coarse region, away from the domain faces"""
    nf = ref.domain[-1][n]
    cells = [nf - 2.5, nf - 3.0, nf - 3.25, nf - 4.0, nf - 4.5, nf - 6.75, nf - 8.0, nf - 8.5, nf - 9.0, nf - 40.25, nf / 2.0 + 0.5, 40.0, 37.0]
    return [ref.geo_lo[n] + c * ref.dx[-1][n] for c in cells]


def run_deep(case, workdir, rec):
    from amr_kitchen.mandoline import Mandoline
    n = case["normal"]
    desc = case["desc"]
    path, ref = build(desc, workdir)
    dh = h64([desc, n])
    a, b = 3.0, 2.0
    for pi, pos in enumerate(deep_positions(ref, n)):
        for serial in (True, False):
            with vpool.controlled():
                with poisoned(MODS, pi % 2):
                    st, val = call(lambda: Mandoline(path, fields=["A", "p7", "grid_level"], serial=serial, verbose=0).slice(normal=n, pos=pos, fformat="return"))
            sub = {"normal": n, "pos": pos, "fields": ["A", "p7", "grid_level"], "serial": serial, "deep": True}
            rec.exe([dh, "deep", pi, serial])
            if st == "exc":
                rec.fail("raised", sub, exc_text(val))
                continue
            got = np.asarray(val["A"]).T
            e = a + b * pos
            # per pixel: the finest level with a box that contains the point; the affine field is exact unless the plane
            # is beyond the outermost cell centres of THAT level (then the single nearest sample is returned)
            cx, cy = [d_ for d_ in range(3) if d_ != n]
            F = ref.nlevels - 1
            Lp = np.zeros((ref.domain[F][cx], ref.domain[F][cy]), dtype=int)
            has = np.zeros((ref.nlevels,) + Lp.shape, dtype=bool)     # levels with a box at the pixel whose half-cell-extended normal extent holds the plane
            for lv in range(ref.nlevels):
                r = 2 ** (F - lv)
                for lo, hi in ref.boxes[lv]:
                    blo, bhi = ref.geo_lo[n] + lo[n] * ref.dx[lv][n], ref.geo_lo[n] + (hi[n] + 1) * ref.dx[lv][n]
                    if blo <= pos <= bhi:
                        Lp[lo[cx] * r:(hi[cx] + 1) * r, lo[cy] * r:(hi[cy] + 1) * r] = lv
                    if blo - ref.dx[lv][n] / 2 <= pos <= bhi + ref.dx[lv][n] / 2:
                        has[lv, lo[cx] * r:(hi[cx] + 1) * r, lo[cy] * r:(hi[cy] + 1) * r] = True
            half = np.array([ref.dx[lv][n] / 2 for lv in range(ref.nlevels)])[Lp]
            two_sided = (pos - ref.geo_lo[n] >= half) & (ref.geo_hi[n] - pos >= half)
            if got.shape != Lp.shape:
                rec.fail("shape", sub, "%s" % (got.shape,))
                continue
            bad = two_sided & ~(np.abs(got - e) <= 64 * EPS * (abs(a) + abs(b * pos)) * 4)
            if has_poison_mask(got).any() or has_poison_mask(np.asarray(val["p7"], dtype=float)).any():
                rec.fail("uninitialised_memory", sub, "pixels hold uninitialised memory")
            elif bad.any():
                i, j = np.argwhere(bad)[0]
                rec.fail("affine_not_reproduced", sub, "A pixel (%d,%d): %r != a+b*pos = %r" % (i, j, got[i, j], e))
            g = np.asarray(val["grid_level"], dtype=float).T
            if not (np.isin(g, np.arange(ref.nlevels)).all() and np.take_along_axis(has, g.astype(int)[None, ...], axis=0)[0].all()):
                rec.fail("grid_level", sub, "levels shown: %r" % sorted(set(g.ravel().tolist()))[:10])
    rec.sample({"desc": {k: v for k, v in desc.items() if k != "levels"}, "normal": n, "deep": True})


FIELD_LISTS = [["A"], ["A", "C", "G", "H"], ["G", "grid_level"], ["all"], ["G", "A"], ["C", "grid_level", "A"],
               ["C", "G", "A"], ["G", "A", "H", "C"]]      # (rotations: permutations that are not their own inverse)


def check_slice(rec, sub, sm, ref, m, L, fl, out):
    """per pixel oracle; returns list of failed clause names"""
    R = sm.reference(m, L)
    pos = R["pos"]
    names = ref.fields
    want = names if fl == ["all"] else [f for f in fl if f != "grid_level"]
    grid = fl == ["all"] or "grid_level" in fl
    nx, ny = R["Lp"].shape
    near = sm.shared_face_pixels(m, L)
    fails = {}

    def note(clause, badmask, detail):
        only_near = bool(badmask.any()) and not bool((badmask & ~near).any())
        fails[clause] = (detail, only_near, int(badmask.sum()))
    for nm in want:
        if nm not in out:
            fails["field_missing"] = (nm, False, 0)
            continue
        got = np.asarray(out[nm]).T          # -> (nx, ny)
        if got.shape != (nx, ny):
            fails["shape"] = ("%s: %s != %s" % (nm, got.shape, (nx, ny)), False, 0)
            continue
        fi = names.index(nm)
        pois = has_poison_mask(got)
        if pois.any():
            note("uninitialised_memory", pois, "%s: %d pixels hold uninitialised memory" % (nm, int(pois.sum())))
        # exact demand
        ok_exact = R["exact_ok"]
        tol = 64 * EPS * R["mag"][..., fi] + 1e-300
        with np.errstate(invalid="ignore"):
            bad_exact = ok_exact & ~((got == R["exact"][..., fi]) | (np.abs(got - R["exact"][..., fi]) <= tol))
        bad_exact &= ~pois
        if bad_exact.any():
            i, j = np.argwhere(bad_exact)[0]
            note("values_" + nm, bad_exact, "%s pixel (%d,%d): %r, bracket samples of level %d give %r"
                 % (nm, i, j, got[i, j], R["Lp"][i, j], R["exact"][i, j, fi]))
        # candidate membership elsewhere
        rest = ~ok_exact & ~pois
        if rest.any():
            member = np.zeros((nx, ny), dtype=bool)
            for ok, e, mag in R["cands"]:
                with np.errstate(invalid="ignore"):
                    member |= ok & ((got == e[..., fi]) | (np.abs(got - e[..., fi]) <= 64 * EPS * mag[..., fi] + 1e-300)
                                    | (np.isnan(got) & np.isnan(e[..., fi])))      # inf * 0 in a bracket the statement leaves open
            bad = rest & ~member
            if bad.any():
                i, j = np.argwhere(bad)[0]
                note("not_a_bracket_" + nm, bad, "%s pixel (%d,%d): %r is no interpolation of stored samples around the plane"
                     % (nm, i, j, got[i, j]))
        # affine field away from the domain faces: a + b*pos everywhere
        if nm == "A":
            s0 = sm.s(0)
            if s0 // 2 <= m <= sm.nunits() - s0 // 2:
                a, b = 3.0 + fi, 2.0 + 0.5 * fi
                e = a + b * pos
                badA = ~(np.abs(got - e) <= 64 * EPS * (abs(a) + abs(b * pos)) * 4) & ~pois
                if badA.any():
                    i, j = np.argwhere(badA)[0]
                    note("affine_not_reproduced", badA, "A pixel (%d,%d): %r != a+b*pos = %r" % (i, j, got[i, j], e))
    if grid:
        g = out.get("grid_level")
        if g is None or np.asarray(g).T.shape != (nx, ny):
            fails["grid_level_missing"] = ("", False, 0)
        else:
            g = np.asarray(g, dtype=float).T
            pois = has_poison_mask(g)
            if pois.any():
                note("grid_level_uninitialised", pois, "%d pixels of grid_level hold uninitialised memory" % int(pois.sum()))
            with np.errstate(invalid="ignore"):
                integral = (g == np.floor(g)) & (g >= 0) & (g <= L)
            gi = np.where(integral, g, 0).astype(int)
            okl = np.take_along_axis(R["level_ok"], gi[None, ...], axis=0)[0] & integral
            bad = ~okl & ~pois
            if bad.any():
                i, j = np.argwhere(bad)[0]
                note("grid_level", bad, "pixel (%d,%d): grid_level %r is not a level with a box there" % (i, j, g[i, j]))
    # coordinates
    ex = ref.geo_lo[sm.cx] + (np.arange(ref.domain[L][sm.cx]) + 0.5) * ref.dx[L][sm.cx]
    ey = ref.geo_lo[sm.cy] + (np.arange(ref.domain[L][sm.cy]) + 0.5) * ref.dx[L][sm.cy]
    if not (np.shape(out["x"]) == ex.shape and np.allclose(out["x"], ex, rtol=1e-12, atol=1e-12 * ref.dx[L][sm.cx])
            and np.shape(out["y"]) == ey.shape and np.allclose(out["y"], ey, rtol=1e-12, atol=1e-12 * ref.dx[L][sm.cy])):
        fails["coordinates"] = ("x/y are not the cell centres", False, 0)
    for clause, (detail, only_near, npx) in fails.items():
        rec.fail(clause, dict(sub, only_near_shared_face=only_near, pixels=npx), detail)
    return fails


def has_poison_mask(a):
    from ..common import POISONS
    bits = np.ascontiguousarray(a, dtype=np.float64).view(np.uint64)
    return np.isin(bits, np.array(POISONS, dtype=np.uint64))


def check_perturbed(rec, sub, sm, ref, m, L, out, pos2):
    """position pos2 = lattice position m moved by a few ulps / 1e-9 cell: interpolation is continuous in the position, so
    the lattice reference holds up to slope x displacement wherever the three lattice points m-1, m, m+1 agree on the
    level that contains the plane; elsewhere (a box face in between) any bracket of stored samples is accepted.  The
    affine field is a + b*pos2 itself."""
    n = sm.n
    R, Rm, Rp = sm.reference(m, L), sm.reference(m - 1, L), sm.reference(m + 1, L)
    delta = abs(pos2 - R["pos"])
    dxf = ref.dx[L][n]
    nx, ny = R["Lp"].shape
    stable = R["exact_ok"] & (R["Lp"] == Rm["Lp"]) & (R["Lp"] == Rp["Lp"])
    for nm in ("A", "C", "G"):
        fi = ref.fields.index(nm)
        got = np.asarray(out[nm]).T
        if got.shape != (nx, ny):
            rec.fail("shape", sub, "%s: %s" % (nm, got.shape))
            return
        pois = has_poison_mask(got)
        if pois.any():
            rec.fail("uninitialised_memory", sub, "%s: %d pixels hold uninitialised memory" % (nm, int(pois.sum())))
            continue
        magF = max(float(np.max(np.abs(a[..., fi]))) for lv in range(L + 1) for a in ref.data[lv])
        extra = delta * (4.0 / dxf) * 2.0 * magF + 1e-300
        with np.errstate(invalid="ignore"):
            bad = stable & ~(np.abs(got - R["exact"][..., fi]) <= 64 * EPS * R["mag"][..., fi] + extra)
        if bad.any():
            i, j = np.argwhere(bad)[0]
            rec.fail("values_" + nm, sub, "%s pixel (%d,%d): %r, at the lattice position %g away the bracket samples of level %d give %r"
                     % (nm, i, j, got[i, j], delta, R["Lp"][i, j], R["exact"][i, j, fi]))
        rest = ~stable
        if rest.any():
            member = np.zeros((nx, ny), dtype=bool)
            for RR in (R, Rm, Rp):
                for ok, e, mag in RR["cands"]:
                    with np.errstate(invalid="ignore"):
                        member |= ok & (np.abs(got - e[..., fi]) <= 64 * EPS * mag[..., fi] + extra)
            bad = rest & ~member
            if bad.any():
                i, j = np.argwhere(bad)[0]
                rec.fail("not_a_bracket_" + nm, sub, "%s pixel (%d,%d): %r is no interpolation of stored samples around the plane" % (nm, i, j, got[i, j]))
        if nm == "A":
            s0 = sm.s(0)
            if s0 // 2 < m < sm.nunits() - s0 // 2:
                a, b = 3.0 + fi, 2.0 + 0.5 * fi
                e = a + b * pos2
                # (a position within the tool's 1e-6 cell tolerance of a cell centre is taken as that centre)
                badA = ~(np.abs(got - e) <= 64 * EPS * (abs(a) + abs(b * pos2)) * 4 + abs(b) * delta)
                if badA.any():
                    i, j = np.argwhere(badA)[0]
                    rec.fail("affine_not_reproduced", sub, "A pixel (%d,%d): %r != a+b*pos = %r" % (i, j, got[i, j], e))
    g = out.get("grid_level")
    if g is None or np.asarray(g).T.shape != (nx, ny):
        rec.fail("grid_level_missing", sub, "")
    else:
        g = np.asarray(g, dtype=float).T
        with np.errstate(invalid="ignore"):
            integral = (g == np.floor(g)) & (g >= 0) & (g <= L)
        gi = np.where(integral, g, 0).astype(int)
        lev_ok = R["level_ok"] | Rm["level_ok"] | Rp["level_ok"]
        okl = np.take_along_axis(lev_ok, gi[None, ...], axis=0)[0] & integral
        if (~okl).any():
            i, j = np.argwhere(~okl)[0]
            rec.fail("grid_level", sub, "pixel (%d,%d): grid_level %r is not a level with a box there" % (i, j, g[i, j]))


def run_case(case, workdir):
    from amr_kitchen.mandoline import Mandoline
    rec = Rec()
    if case.get("deep"):
        run_deep(case, workdir, rec)
        return rec.result()
    desc = case["desc"]
    n = case["normal"]
    path, ref = build(desc, workdir)
    sm = SliceModel(ref, n)
    dh = h64([desc, n])
    nlev = ref.nlevels
    N = sm.nunits()
    positions = list(range(0, N + 1))      # (also for the non-dyadic geometry: box faces and cell centres are decidable there too)

    def do(fl, limit, serial, pos, poison):
        with vpool.controlled() as ctl:
            with poisoned(MODS, poison):
                return call(lambda: Mandoline(path, fields=fl, limit_level=limit, serial=serial, verbose=0).slice(
                    normal=n, pos=pos, fformat="return"))
    for m in positions:
        pos = sm.pos_of(m)
        # star over (field list, limit): all limits with the first list, all lists with limit None
        combos = [(FIELD_LISTS[1], lim) for lim in [None] + list(range(nlev))] + [(fl, None) for fl in FIELD_LISTS if fl is not FIELD_LISTS[1]]
        for fl, limit in combos:
            L = nlev - 1 if limit is None else limit
            outs = []
            for serial, poison in ((True, 0), (False, 1)):
                st, val = do(fl, limit, serial, pos, poison)
                sub = {"normal": n, "m": m, "pos": pos, "fields": fl, "limit_level": limit, "serial": serial, "poison": poison}
                rec.exe([dh, m, fl, limit, serial, poison])
                if st == "exc":
                    rec.fail("raised", sub, exc_text(val))
                    continue
                check_slice(rec, sub, sm, ref, m, L, fl, val)
                outs.append(val)
            if len(outs) == 2:
                same = all(np.array_equal(np.asarray(outs[0][k], dtype=float).view(np.uint64), np.asarray(outs[1][k], dtype=float).view(np.uint64))
                           for k in outs[0] if isinstance(outs[0][k], np.ndarray) and k not in ("x", "y"))
                if not same:
                    near = bool(sm.shared_face_pixels(m, L).any())
                    rec.fail("serial_parallel_or_poison_dependent", {"normal": n, "m": m, "fields": fl, "limit_level": limit,
                             "only_near_shared_face": near}, "outputs differ between serial/poison0 and parallel/poison1")
    # other spellings of the position: where the lattice value is a whole number it is also given as a Python int and as a NumPy
    # integer; every lattice value also as np.float64 and (where exact) np.float32 - the slice must be the one of the float
    for m in positions:
        p0 = sm.pos_of(m)
        forms = [("np.float64", np.float64(p0)), ("0-d array", np.array(p0))]
        if float(np.float32(p0)) == p0:
            forms.append(("np.float32", np.float32(p0)))
        if p0 == int(p0) and abs(p0) < 2 ** 40:
            forms += [("int", int(p0)), ("np.int64", np.int64(int(p0)))]
        if len(forms) == 2 and m % 4:
            forms = forms[1:] if m % 2 else forms[:1]
        st0, base = do(["A", "G", "grid_level"], None, True, p0, 0)
        for tag_, pv in forms:
            st, val = do(["A", "G", "grid_level"], None, True, pv, 0)
            rec.exe([dh, "spelling", m, tag_])
            sub = {"normal": n, "m": m, "pos": repr(pv), "position_given_as": tag_, "fields": ["A", "G", "grid_level"], "limit_level": None, "serial": True, "poison": 0}
            if (st == "exc") != (st0 == "exc"):
                rec.fail("raised", sub, exc_text(val) if st == "exc" else "the float position is refused, this spelling is answered")
            elif st != "exc":
                same = all(np.array_equal(np.asarray(base[k], dtype=float).view(np.uint64), np.asarray(val[k], dtype=float).view(np.uint64))
                           for k in base if isinstance(base[k], np.ndarray))
                if not same:
                    rec.fail("position_spelling", sub, "the slice differs from the slice at the same position given as a float")
    # magnitude: the same plotfile with every field scaled by 2^-70 (exact in binary; trace quantities of order 1e-21) - interpolation
    # is linear, so every pixel must be the scaled pixel bit for bit, at positions between cell centres as well as on them
    if isinstance(desc.get("payload"), list) and not any("*" in p_ or "hconst" in p_ for p_ in desc["payload"][:3]):
        SC = 2.0 ** -70
        d_small = dict(desc, payload=[(p_ + "*" + repr(SC)) if i_ < 3 else p_ for i_, p_ in enumerate(desc["payload"])])
        path_s, ref_s = build(d_small, workdir, "plt_small", prehistory=False, pathform="plain")
        for m in positions[1::max(1, len(positions) // 6)]:
            p0 = sm.pos_of(m)
            st0, base = do(["A", "G", "C"], None, bool(m % 2), p0, 0)
            with vpool.controlled():
                with poisoned(MODS, 0):
                    st, val = call(lambda: Mandoline(path_s, fields=["A", "G", "C"], serial=bool(m % 2), verbose=0).slice(normal=n, pos=p0, fformat="return"))
            rec.exe([dh, "scaled", m])
            sub = {"normal": n, "m": m, "pos": p0, "fields": ["A", "G", "C"], "limit_level": None, "history": "the same data scaled by 2^-70"}
            if st0 == "exc" or st == "exc":
                if st0 != st:
                    rec.fail("raised", sub, exc_text(val if st == "exc" else base))
                continue
            for k_ in ("A", "G", "C"):
                a_, b_ = np.asarray(base[k_], dtype=float) * SC, np.asarray(val[k_], dtype=float)
                if a_.shape != b_.shape or not np.array_equal(a_.view(np.uint64), b_.view(np.uint64)):
                    rec.fail("magnitude_dependent", dict(sub, field=k_), "the slice of the scaled field is not the scaled slice")
                    break
    # positions a few ulps / 1e-9 cell beside every lattice position (cell centres, faces, quarter points)
    dxf = ref.dx[nlev - 1][n]
    for m in positions:
        if not 0 < m < N:
            continue
        p0 = sm.pos_of(m)
        for pi, pos2 in enumerate((np.nextafter(p0, np.inf), np.nextafter(p0, -np.inf), p0 + 1e-9 * dxf, p0 - 1e-9 * dxf)):
            pos2 = float(pos2)
            if pos2 == p0:
                continue
            serial = bool((m + pi) % 2)
            st, val = do(["A", "C", "G", "grid_level"], None, serial, pos2, 0)
            sub = {"normal": n, "m": m, "pos": pos2, "beside_lattice_position": p0, "fields": ["A", "C", "G", "grid_level"], "limit_level": None,
                   "serial": serial, "poison": 0}
            rec.exe([dh, "beside", m, pi])
            if st == "exc":
                rec.fail("raised", sub, exc_text(val))
                continue
            check_perturbed(rec, sub, sm, ref, m, nlev - 1, val, pos2)
    # histories on ONE Mandoline object: slices along all three normals in turn, vs fresh objects
    n1, n2 = (n + 1) % 3, (n + 2) % 3
    cen = [0.5 * (ref.geo_lo[d] + ref.geo_hi[d]) + 0.25 * ref.dx[nlev - 1][d] for d in range(3)]
    seq = [(n, sm.pos_of(positions[len(positions) // 3])), (n1, cen[n1]), (n2, cen[n2]), (n, sm.pos_of(positions[(2 * len(positions)) // 3])),
           (n2, cen[n2]), (n1, cen[n1]), (n, sm.pos_of(positions[len(positions) // 3]))]

    def fresh(nn, pp, serial):
        with vpool.controlled():
            with poisoned(MODS, 0):
                return call(lambda: Mandoline(path, fields=["G", "A", "grid_level"], serial=serial, verbose=0).slice(normal=nn, pos=pp, fformat="return"))
    for serial in (True, False):
        def hist():
            with vpool.controlled():
                with poisoned(MODS, 0):
                    mo = Mandoline(path, fields=["G", "A", "grid_level"], serial=serial, verbose=0)
                    res = []
                    for nn, pp in seq:
                        r = mo.slice(normal=nn, pos=pp, fformat="return")
                        res.append({k_: (np.array(v_, copy=True) if isinstance(v_, np.ndarray) else v_) for k_, v_ in r.items()})
                        for v_ in r.values():          # the caller post-processes its result in place
                            if isinstance(v_, np.ndarray) and v_.flags.writeable:
                                v_ *= -1000.0
                    return res
        st, val = call(hist)
        rec.exe([dh, "history", serial], trans=len(seq))
        if st == "exc":
            rec.fail("history_raised", {"normal": n, "serial": serial, "sequence": seq}, exc_text(val))
        else:
            for k, (nn, pp) in enumerate(seq):
                st2, fr = fresh(nn, pp, serial)
                if st2 == "ok" and not all(np.array_equal(np.asarray(val[k][f], dtype=float).view(np.uint64), np.asarray(fr[f], dtype=float).view(np.uint64))
                                           for f in ("G", "A", "grid_level", "x", "y")) or (st2 == "ok" and val[k]["slice_normal"] != fr["slice_normal"]):
                    rec.fail("history_dependent", {"normal": n, "serial": serial, "call": k, "sequence": seq},
                             "call %d (normal %d) on a re-used Mandoline object differs from a fresh object" % (k, nn))
    # every order of the per-box tasks at the positions where a level mixes boxes holding the plane and neighbour boxes
    from .. import explorer
    for m in positions:
        if not sm.shared_face_pixels(m, nlev - 1).any():
            continue
        pos = sm.pos_of(m)
        st0, base = do(["G", "A", "grid_level"], None, True, pos, 0)

        def run(plan):
            with vpool.controlled(plan) as ctl:
                with poisoned(MODS, 0):
                    r = call(lambda: Mandoline(path, fields=["G", "A", "grid_level"], serial=False, verbose=0).slice(normal=n, pos=pos, fformat="return"))
            return ctl, r
        for plan, ctl, (st, val) in explorer.explore(run, bound=1):
            if not plan:
                continue
            rec.exe([dh, "sched", m, explorer.plan_json(plan)], trans=sum(c["n"] for c in ctl.calls))
            same = st == st0 and (st == "exc" or all(np.array_equal(np.asarray(val[f], dtype=float).view(np.uint64), np.asarray(base[f], dtype=float).view(np.uint64))
                                                      for f in ("G", "A", "grid_level")))
            if not same:
                rec.fail("schedule_dependent", {"normal": n, "m": m, "plan": explorer.plan_json(plan)},
                         "parallel slice under this task order differs from the serial slice")
    # the command line entry point (array format) must save what the API returns
    import os
    import amr_kitchen.mandoline.cli as mcli
    from ..common import run_cli
    # (position 0.0 exactly, where the domain starts there: an option value that is falsy)
    for m_ in (positions[len(positions) // 4], positions[len(positions) // 2]) + ((0,) if (ref.geo_lo[n] == 0.0 and positions[0] == 0) else ()):
        for limit, serial in ((None, False), (0, True)):
            out = os.path.join(workdir, "cli_out")
            argv = ["mandoline", path, "-f", "array", "-o", out, "-n", str(n), "-p", repr(sm.pos_of(m_)), "-v", "G", "A", "grid_level"] \
                + (["-L", str(limit)] if limit is not None else []) + (["-s", "-V", "0"] if serial else [])       # default verbosity in parallel mode
            with vpool.controlled():
                with poisoned(MODS, 0):
                    st, val = run_cli(mcli.main, argv)
            rec.exe([dh, "cli", m_, limit, serial])
            if st != "ok":
                rec.fail("cli_failed", {"argv": argv}, "%s %s" % (st, val))
                continue
            z = np.load(out + ".npz")
            st2, api = do(["G", "A", "grid_level"], limit, serial, sm.pos_of(m_), 0)
            if st2 == "ok" and not all(f in z.files and np.array_equal(np.asarray(z[f], dtype=float).view(np.uint64), np.asarray(api[f], dtype=float).view(np.uint64))
                                       for f in ("G", "A", "grid_level", "x", "y")):
                rec.fail("cli_differs_from_api", {"argv": argv}, "the saved arrays differ from Mandoline(...).slice(fformat='return')")
            os.remove(out + ".npz")
    # default position = domain centre
    st, val = do(["G"], None, True, None, 0)
    rec.exe([dh, "default_pos"])
    centre = 0.5 * (ref.geo_lo[n] + ref.geo_hi[n])
    if st == "exc":
        rec.fail("default_position_raised", {"normal": n}, exc_text(val))
    elif not abs(float(val["slice_pos"]) - centre) <= 1e-12 * max(1.0, abs(centre)):
        rec.fail("default_position", {"normal": n}, "slice_pos %r, domain centre %r" % (val["slice_pos"], centre))
    # outside the domain
    for pos in (ref.geo_lo[n] - 0.25 * ref.dx[nlev - 1][n], ref.geo_hi[n] + 0.25 * ref.dx[nlev - 1][n]):
        st, val = do(["G"], None, True, pos, 0)
        rec.exe([dh, "outside", pos])
        if st != "exc":
            rec.fail("outside_accepted", {"normal": n, "pos": pos}, "slice outside the domain returned data")
    rec.sample({"desc": desc, "normal": n, "positions": len(positions)})
    return rec.result()


def _sig_shared_face(case, fail):
    s = fail["sub"]
    return bool(s.get("only_near_shared_face")) and (fail["clause"].startswith(("values_", "not_a_bracket_", "uninitialised_memory",
                                                     "grid_level", "affine_not_reproduced", "serial_parallel")))


SIGNATURES = {"plane_within_half_cell_of_same_level_box_face": _sig_shared_face}
