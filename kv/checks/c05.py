"""C05 - colander output holds exactly the kept fields and levels, bit for bit."""
import os
import numpy as np
import itertools
from .. import scope, vpool, oracle
from ..common import build, call, exc_text
from ..refmodel import ParsedPlot, tree_digest
from ..runner import Rec, h64
from . import c01

PROPERTY = "C05"
LEVEL = "model_checking"
RULE = ("case = generated plotfile (2D/3D, every layout of one deviating level, non-finite payload); execution = one "
        "Colander(plotfile, limit, output, variables).strain() followed by an independent parse of the output, compared "
        "with RefPlot.strain(): fields/order, levels, time, geometry, boxes, bit-identical box data, token-exact restricted "
        "min/max rows, reference validator + taste verdict (default and box coordinates), input tree digest unchanged; "
        "non-trivial = selection drops or reorders a field, drops a level, or the layout is not single-file-in-order")
ASSUMPTIONS = ["selections with no present name are outside the statement", "controlled in-process pool, identity schedule"]
UNKNOWN = "no_such_field"


def bounds(tier):
    return {"variables": "'all'; every non-empty ordered selection of distinct names (<= 3 names quick, <= 4 thorough); "
                         "each with an unknown name inserted at every position",
            "limit_level": "None, 0..finest"}


def selections(names, maxlen):
    yield ["all"]
    for r in range(1, min(len(names), maxlen) + 1):
        for perm in itertools.permutations(names, r):
            perm = list(perm)
            yield perm
            for pos in range(len(perm) + 1):
                if r <= 2:
                    yield perm[:pos] + [UNKNOWN] + perm[pos:]


def cases(tier, seed):
    out = []
    for c in c01.cases(tier, seed):
        d = c["desc"]
        nf = len(d["fields"])
        if c.get("wide120"):
            out.append({"desc": d, "maxlen": 1, "w": 30, "wide": True})
            continue
        if len(set(d["fields"])) != nf:
            if c.get("devlevel") is not None:
                continue
        if tier == "quick":
            # layouts x (2 fields); field-count variation on default layouts only
            if c.get("devlevel") is not None and nf != 2:
                continue
            if d["payload"] == "hostile" and c.get("devlevel") is None and nf != 2:
                continue
        if c.get("deep"):
            # seven levels x twelve fields (long FAB headers): single variables, pairs in the thorough tier
            out.append({"desc": d, "maxlen": 1 if tier == "quick" else 2, "w": 60, "wide": True})
            continue
        out.append({"desc": d, "maxlen": 3 if tier == "quick" else 4, "w": nf ** 2 * len(d["levels"])})
    # field names with a blank or a comma (they are whole header lines; every piece is a field name of its own too)
    for nd in (2, 3):
        m = scope.named_meshes(nd)[1]
        d = dict(m)
        d.update(list(scope.geometries(nd))[(seed + 2) % 6])
        d.update({"fields": ["temp", "temp max", "max", "a,b"], "payload": "coded", "seed": seed, "layout": [None, scope.layouts(len(m["levels"][1]), 'idrev')[-1]]})
        out.append({"desc": d, "maxlen": 2, "w": 20})
    # twelve fields: the component count changes its number of digits between input and output
    for nd in (2, 3):
        m = scope.named_meshes(nd)[2]
        d = dict(m)
        d.update(list(scope.geometries(nd))[seed % 6])
        # (every third field holds huge finite values of both signs: min/max tokens of 24 characters, "-2.38...e+296")
        d.update({"fields": ["f%d" % i for i in range(12)], "payload": ["signed", "huge", "pos"] * 4, "seed": seed,
                  "layout": [scope.layouts(len(b), 'idrev')[3 if len(b) == 3 else -1] for b in m["levels"]]})
        out.append({"desc": d, "maxlen": 1, "w": 30, "wide": True})
    return out


def run_case(case, workdir):
    from amr_kitchen.colander import Colander
    rec = Rec()
    desc = case["desc"]
    path, ref = build(desc, workdir)
    pin = ParsedPlot(path)
    dh = h64(desc)
    names = c01.reader_names(desc["fields"])
    refn = ref.strain(["all"])
    refn.fields = names            # reader-side names of repeated fields
    before = tree_digest(path)
    k = 0
    trivial_layout = all(scope.layout_is_trivial(l) for l in scope_layouts(desc))
    sels = list(selections(names, case["maxlen"]))
    if len(names) >= 4 and not case.get("wide"):
        # the ends of a consecutive run around a permuted interior, and the same with a gap
        sels += [[names[0], names[2], names[1], names[3]], [names[1], names[3], names[2], names[0]]]
    if case.get("wide"):
        sels = [["all"], names[9:12] + names[0:1], names[2:12], [names[11]], names[::-1]]
    for sel in sels:
        if sel != ["all"] and len(set(names)) != len(names):
            continue
        for limit in [None] + list(range(ref.nlevels)):
            k += 1
            # ONE output path per level limit, written again and again by the successive requests (same levels and binary
            # file names, other fields - often as many as before): what a request writes must not depend on what an earlier
            # request left there
            out = os.path.join(workdir, "out_limit_%s" % limit)
            sub = {"variables": sel, "limit_level": limit, "output": "holds the result of the previous request with this limit" if os.path.isdir(out) else "fresh"}
            # (argument spellings: every third request gives the limit as a NumPy integer and plotfile / output as pathlib.Path
            # objects - honoured exactly or refused, never answered for other arguments)
            spelled = (k % 3 == 0)
            import pathlib
            lim_ = (np.int64(limit) if (spelled and limit is not None) else limit)
            with vpool.controlled() as ctl:
                st, val = call(lambda: Colander(plotfile=pathlib.Path(path) if spelled else path, limit_level=lim_,
                                                output=pathlib.Path(out) if spelled else out, variables=sel).strain())
            if spelled and st == "exc":
                rec.exe([dh, sub, "spelled_refused"], nontrivial=False)
                with vpool.controlled() as ctl:
                    st, val = call(lambda: Colander(plotfile=path, limit_level=limit, output=out, variables=sel).strain())
            present = names if sel == ["all"] else [v for v in sel if v in names]
            nontriv = (present != names) or (limit is not None and limit < ref.nlevels - 1) or not trivial_layout
            rec.exe([dh, sub], nontrivial=nontriv, trans=1 + sum(c["n"] for c in ctl.calls))
            if st == "exc":
                rec.fail("raised", sub, exc_text(val))
                continue
            exp = refn.strain(sel, limit)
            pp = oracle.parse_output(rec, sub, out)
            if pp is None:
                continue
            oracle.compare_contents(rec, sub, pp, exp)
            keep = [names.index(v) for v in present]

            def rows(lv, box):
                b = pin.levels[lv].index.index(box)
                return [pin.levels[lv].mins[b][i] for i in keep], [pin.levels[lv].maxs[b][i] for i in keep]
            if pp.finest + 1 == exp.nlevels and all(sorted(pp.levels[lv].index) == sorted(exp.boxes[lv]) for lv in range(exp.nlevels)):
                oracle.compare_minmax_tokens(rec, sub, pp, rows)
            oracle.taste_accepts(rec, sub, out)
    # the command line entry point must write what the API writes (same selection, same limit)
    if len(set(names)) == len(names):
        import amr_kitchen.colander.cli as ccli
        from ..common import run_cli
        for sel, limit in ((["all"], None), (["all"], 0), ([names[-1], UNKNOWN, names[0]] if len(names) > 1 else [names[0]], 0),
                           ([names[0]], ref.nlevels - 1)):
            out = os.path.join(workdir, "out_cli")
            shutil_rmtree(out)
            argv = ["colander", path, "-v"] + sel + (["-l", str(limit)] if limit is not None else []) + ["-o", out]
            with vpool.controlled():
                st, val = run_cli(ccli.main, argv)
            rec.exe([dh, "cli", sel, limit], nontrivial=True)
            sub = {"argv": argv}
            if st != "ok":
                rec.fail("cli_failed", sub, "%s %s" % (st, val))
                continue
            pp = oracle.parse_output(rec, sub, out)
            if pp is not None:
                oracle.compare_contents(rec, sub, pp, refn.strain(sel, limit))
            shutil_rmtree(out)
    # history on ONE Colander object: straining twice must give the same output tree
    if len(names) >= 2 and len(set(names)) == len(names):
        out = os.path.join(workdir, "out_twice")
        sel = [names[-1], names[0]]
        with vpool.controlled():
            def twice():
                c = Colander(plotfile=path, limit_level=None, output=out, variables=sel)
                c.strain()
                d1 = tree_digest(out)
                c.strain()
                return d1, tree_digest(out)
            st, val = call(twice)
        rec.exe([dh, "strain_twice"], nontrivial=True, trans=2)
        sub = {"history": "two strain() calls on one Colander object", "variables": sel}
        if st == "exc":
            rec.fail("history_raised", sub, exc_text(val))
        elif val[0] != val[1]:
            rec.fail("history_dependent", sub, "second strain() wrote another tree")
        else:
            pp = oracle.parse_output(rec, sub, out)
            if pp is not None:
                oracle.compare_contents(rec, sub, pp, refn.strain(sel, None))
    if len(names) >= 2 and len(set(names)) == len(names):
        # history: ANOTHER request into the output path that the run above filled (an output that already exists)
        out = os.path.join(workdir, "out_twice")
        if os.path.isdir(out):
            sel2 = [names[0]]
            with vpool.controlled():
                st, val = call(lambda: Colander(plotfile=path, limit_level=0, output=out, variables=sel2).strain())
            rec.exe([dh, "existing_output"], nontrivial=True, trans=2)
            sub = {"history": "output directory already holds the result of another request", "variables": sel2, "limit_level": 0}
            if st == "exc":
                rec.fail("history_raised", sub, exc_text(val))
            else:
                pp = oracle.parse_output(rec, sub, out)
                if pp is not None:
                    oracle.compare_contents(rec, sub, pp, refn.strain(sel2, 0))
                    oracle.taste_accepts(rec, sub, out)
        # history: the caller's request list (with a name that an earlier plotfile lacks) used for a later plotfile that has it
        d2 = dict(desc, fields=list(desc["fields"]) + ["late_field"], seed=desc.get("seed", 0) + 9)
        if isinstance(desc.get("payload"), list):
            d2["payload"] = list(desc["payload"]) + ["coded"]
        path2, ref2 = build(d2, workdir, "plt00001")
        request = ["late_field", names[0]]
        with vpool.controlled():
            def series():
                Colander(plotfile=path, limit_level=None, output=os.path.join(workdir, "out_s1"), variables=request).strain()
                Colander(plotfile=path2, limit_level=None, output=os.path.join(workdir, "out_s2"), variables=request).strain()
            st, val = call(series)
        rec.exe([dh, "request_list_reused"], nontrivial=True, trans=2)
        sub = {"history": "one request list object used for two plotfiles, the first lacks a requested field", "variables": ["late_field", names[0]],
               "list_now": [str(x) for x in request]}
        if st == "exc":
            rec.fail("history_raised", sub, exc_text(val))
        else:
            pp = oracle.parse_output(rec, sub, os.path.join(workdir, "out_s2"))
            if pp is not None:
                oracle.compare_contents(rec, sub, pp, ref2.strain(["late_field", names[0]], None))
    if tree_digest(path) != before:
        rec.fail("input_modified", {}, "input plotfile changed")
    rec.sample({"desc": desc, "ops": "strain(variables, limit) over all ordered selections and limits"})
    return rec.result()


def shutil_rmtree(p):
    import shutil
    shutil.rmtree(p, ignore_errors=True)


def scope_layouts(desc):
    from ..refmodel import normalise_desc
    return normalise_desc(desc)["layout"]


SIGNATURES = {}
