"""C01 - box data read through the indexing interface is exactly what is on disk."""
import numpy as np
from .. import scope, selectors as S, vpool
from ..common import build, call, exc_text
from ..refmodel import bits_equal
from ..runner import Rec

PROPERTY = "C01"
LEVEL = "model_checking"
RULE = ("case = generated plotfile (ndims x mesh x one level with every box->file layout / on-disk "
        "order / file numbering x nfields x payload); execution = one selection "
        "pck[field_sel][level][box_sel] compared bit-wise with NumPy indexing of the reference "
        "arrays; non-trivial = the reference defines data for the selection (classes A/B), "
        "distinct by (plotfile descriptor, selector triple)")
ASSUMPTIONS = ["pool replaced by the controlled in-process pool (identity schedule; schedules are C12/C15)",
               "plotfiles come from the reference writer, bound to the real AMReX assets by the conformance pass",
               "field counts <= 4, boxes per level <= 4 (3 in quick), box extents 2..8 cells"]


def bounds(tier):
    return {"nfields": [1, 2, 3] if tier == "quick" else [1, 2, 3, 4],
            "selector_product": "star (all field sel x 3 box sel + 3 field sel x all box sel); full product on the "
                                "single-box plotfile (quick) / on the three named meshes x nfields <= 3 (thorough); index lists up "
                                "to length %d" % (2 if tier == "quick" else 3),
            "layouts": "all ordered set partitions x all file numberings of one deviating level"}


CASE_TIMEOUT = 1800


def _meshes(tier, nd):
    ms = list(scope.named_meshes(nd)) + scope.thin_meshes(nd) + scope.far_index_meshes(nd)
    if tier == "thorough":
        blocks = (2, 2) if nd == 2 else (2, 2, 1)
        for t in scope.level0_tilings(blocks, 3):
            dom = [b * 2 for b in blocks]
            base = {"ndims": nd, "domain": dom, "levels": [[[list(lo), list(hi)] for lo, hi in t]]}
            ms.append(base)
            fines = scope.fine_box_sets(t, [2 * a for a in dom], 4, 2, maxsize=8)
            for fs in fines[:: max(1, len(fines) // 4)][:4]:
                m = dict(base)
                m["levels"] = base["levels"] + [[[list(lo), list(hi)] for lo, hi in fs]]
                ms.append(m)
    return ms


def cases(tier, seed):
    geos = {nd: scope.rotate(list(scope.geometries(nd)) + scope.extreme_geometries(nd), seed) for nd in (2, 3)}
    times = scope.rotate(scope.TIMES, seed)
    out = []
    for nd in (2, 3):
        for mi, mesh in enumerate(_meshes(tier, nd)):
            nlev = len(mesh["levels"])
            variants = [[None] * nlev]
            devlevel = [None]
            for lv in range(nlev):
                nb = len(mesh["levels"][lv])
                if nb > 4:
                    continue
                lays = scope.layouts(nb, 'all' if nb <= 3 else 'idrev')
                for li, lay in enumerate(lays[1:]):
                    v = [None] * nlev
                    v[lv] = lay
                    variants.append(v)
                    devlevel.append(lv)
                if nb >= 2:       # file numbering starting at 1 / with a gap
                    v = [None] * nlev
                    v[lv] = {"files": [[b] for b in range(nb)], "nums": [1 + 2 * b for b in range(nb)]}
                    variants.append(v)
                    devlevel.append(lv)
                    # file names of different lengths (Cell_D_99999, Cell_D_100000, ...), the first box in the shortest
                    v = [None] * nlev
                    v[lv] = {"files": [[b] for b in range(nb)], "nums": [99999 + b for b in range(nb)]}
                    variants.append(v)
                    devlevel.append(lv)
            for vi, lay in enumerate(variants):
                for nf in bounds(tier)["nfields"]:
                    for payload in ("coded", "hostile"):
                        if tier == "quick" and payload == "hostile" and nf != 2:
                            continue
                        fields = scope.rotate(scope.FIELD_ALPHABET, seed + nf)[:nf]
                        if nf == 3 and payload == "coded" and vi == 0:
                            fields = [fields[0], fields[1], fields[0]]   # repeated name
                        d = dict(mesh)
                        d.update(geos[nd][(mi + vi) % len(geos[nd])])
                        d.update({"fields": fields, "layout": lay, "payload": payload,
                                  "time": times[(mi + vi) % len(times)], "seed": seed})
                        if tier == "thorough":
                            full = vi == 0 and nf <= 3 and mi <= 2 and payload == "coded"
                        else:
                            full = vi == 0 and nf == 2 and mi == 0 and payload == "coded"
                        out.append({"desc": d, "full": full, "maxlist": 3 if tier == "thorough" else 2,
                                    "boxes_only": vi > 0, "devlevel": devlevel[vi]})
                        c = out[-1]
                        c["w"] = (60 if c["full"] else (1 if c["boxes_only"] else 6)) * nlev
    # names that differ by letter case only; a repeated name next to a field literally named like its generated key
    for fi, flds in enumerate((list(scope.CASE_FIELDS), ["density", "temp", "temp_2", "temp"], ["\u03c9_z", "\u0394\u03c1", "Y(H\u2082O)", "temp"])):
        for nd in (2, 3):
            m = scope.named_meshes(nd)[1]
            d = dict(m)
            d.update(geos[nd][fi % len(geos[nd])])
            d.update({"fields": flds, "layout": [None, scope.layouts(len(m["levels"][1]), 'idrev')[-1]], "payload": "coded", "time": times[1], "seed": seed})
            out.append({"desc": d, "full": False, "maxlist": 2, "boxes_only": False, "devlevel": None, "w": 12, "names_case": True})
    # level directories named otherwise than Level_k (AMReX's levelPrefix)
    for nd in (2, 3):
        m = scope.named_meshes(nd)[2]
        d = dict(m)
        d.update(geos[nd][1])
        d.update({"fields": ["temp", "density"], "layout": [scope.layouts(len(b), 'idrev')[-1] for b in m["levels"]], "payload": "coded", "time": times[3],
                  "seed": seed, "levelprefix": "Lev_"})
        out.append({"desc": d, "full": False, "maxlist": 2, "boxes_only": False, "devlevel": None, "w": 12, "levelprefix": True})
        # binary files in the level directories that the level headers do not list (leftovers, one with a FAB, one empty)
        d = dict(d, decoy=True)
        d.pop("levelprefix")
        out.append({"desc": d, "full": False, "maxlist": 2, "boxes_only": False, "devlevel": None, "w": 12, "decoy": True})
    # 120 fields: three-digit component counts in the FAB headers and level headers, long min / max rows
    m = scope.named_meshes(3)[1]
    d = dict(m)
    d.update(geos[3][3])
    d.update({"fields": ["q%03d" % i for i in range(120)], "layout": [scope.layouts(2, 'idrev')[-1], None], "payload": "coded", "time": times[4], "seed": seed})
    out.append({"desc": d, "full": False, "maxlist": 2, "boxes_only": True, "devlevel": 0, "w": 40, "wide120": True})
    # 27 + 20 boxes scattered over five / three files (more boxes than the small-array shortcuts of sorting routines)
    m = scope.many_box_mesh()
    d = dict(m)
    d.update(geos[3][2])
    d.update({"fields": ["temp", "density", "Z"], "layout": [scope.scattered_layout(27, 5), scope.scattered_layout(20, 3)], "payload": "coded",
              "time": times[2], "seed": seed})
    out.append({"desc": d, "full": False, "maxlist": 2, "boxes_only": True, "devlevel": 0, "w": 40, "many": True})
    # binary file numbers of different widths (Cell_D_99999 next to Cell_D_100000; Cell_D_10000 next to Cell_D_100000)
    for nd in (2, 3):
        m = scope.named_meshes(nd)[2]
        for first in (0, 1):
            d = dict(m)
            d.update(geos[nd][first])
            La, Lb = scope.layouts(len(m["levels"][0]), 'idrev'), scope.layouts(len(m["levels"][1]), 'idrev')
            d.update({"fields": ["temp", "density", "Z"], "payload": "coded", "time": times[first], "seed": seed,
                      "layout": [scope.wide_numbers(La[-1 - first], first), scope.wide_numbers(Lb[len(Lb) // 2], 1 - first), None]})
            out.append({"desc": d, "full": False, "maxlist": 2, "boxes_only": False, "devlevel": None, "w": 12, "wide_numbers": True})
    # twelve levels (Level_10 and Level_11: two-digit level numbers sort before Level_2 as text)
    from .c02 import chain_mesh
    for nd in (2, 3):
        m = chain_mesh(nd, 12)
        d = dict(m)
        d.update(geos[nd][1])
        d.update({"fields": ["temp", "density", "Z"], "layout": [None, scope.layouts(2, 'idrev')[-1]] + [None] * 10, "payload": "coded", "time": times[2], "seed": seed})
        out.append({"desc": d, "full": False, "maxlist": 2, "boxes_only": False, "devlevel": None, "w": 30, "twelve_levels": True})
    # 1100 fields, selected through long NumPy index arrays (their printed form is abbreviated beyond 1000 entries)
    d = {"ndims": 3, "domain": [4, 2, 2], "levels": [[[[0, 0, 0], [1, 1, 1]], [[2, 0, 0], [3, 1, 1]]]]}
    d.update(geos[3][0])
    d.update({"fields": ["w%04d" % i for i in range(1100)], "layout": [scope.layouts(2, 'idrev')[-1]], "payload": "coded", "time": times[0], "seed": seed})
    out.append({"desc": d, "full": False, "maxlist": 1, "boxes_only": True, "devlevel": 0, "w": 40, "wide1100": True})
    # 131 + 65 binary files on a level (one box per file): more files than any batching threshold
    m = scope.many_file_mesh()
    d = dict(m)
    d.update(geos[3][0])
    d.update({"fields": ["temp", "density", "Z"], "layout": scope.many_file_layouts(), "payload": "coded", "time": times[1], "seed": seed})
    out.append({"desc": d, "full": False, "maxlist": 2, "boxes_only": True, "devlevel": None, "w": 60, "many_files": True})
    # seven levels refined towards the far corner, twelve fields: FAB header lines longer than 100 bytes
    m = scope.deep_corner_mesh()
    for vi, lays in enumerate(([None] * 7, [scope.layouts(2, 'idrev')[-1]] * 7)):
        d = dict(m)
        d.update(geos[3][vi])
        d.update({"fields": list(scope.DEEP_FIELDS), "layout": lays, "payload": ["coded", "signed", "huge"] * 4, "time": times[0], "seed": seed})
        out.append({"desc": d, "full": False, "maxlist": 2, "boxes_only": True, "devlevel": None if vi == 0 else 6, "w": 40, "deep": True})
    return out


def reader_names(fields):
    """Field keys as the reader documents them for repeated header names."""
    out = []
    for f in fields:
        if f not in out:
            out.append(f)
        else:
            k = 2
            while "%s_%d" % (f, k) in out:
                k += 1
            out.append("%s_%d" % (f, k))
    return out


def expected(ref, lv, fidx, bsel):
    def one(b):
        a = ref.data[lv][b]
        return a[..., fidx]
    if isinstance(bsel, list):
        return [one(b) for b in bsel]
    return one(bsel)


def same(val, exp):
    if isinstance(exp, list):
        if not isinstance(val, list) or len(val) != len(exp):
            return False
        return all(isinstance(v, np.ndarray) and bits_equal(v, e) for v, e in zip(val, exp))
    return isinstance(val, np.ndarray) and bits_equal(val, exp)


def run_case(case, workdir):
    from amr_kitchen import PlotfileCooker
    rec = Rec()
    desc = case["desc"]
    path, ref = build(desc, workdir)
    from ..runner import h64
    dh = h64(desc)
    with vpool.controlled():
        pck = PlotfileCooker(path)
        names = reader_names(desc["fields"])
        if len(set(desc["fields"])) != len(desc["fields"]):
            # repeated header names: the keys are whatever unique names the reader exposes, in header order (C02 checks that)
            names = list(pck.fields.keys())
            if len(names) != len(desc["fields"]) or [pck.fields[k] for k in names] != list(range(len(names))):
                rec.fail("raised", {"field": ["names"], "level": 0, "box": ["int", 0], "class": "A"}, "reader exposes %r for header %r" % (dict(pck.fields), desc["fields"]))
                return rec.result()
        fsels = list(S.field_selectors(names))
        nlev = ref.nlevels
        for lvtag, lvcls, lv in S.level_selectors(nlev):
            lvr = lv if lv is not None else 0
            if case.get("boxes_only") and lvtag != case.get("devlevel"):
                continue
            nb = len(ref.boxes[lvr])
            bsels = list(S.box_selectors(nb, maxlist=case.get('maxlist', 3)))
            if case["full"]:
                pairs = [(f, b) for f in fsels for b in bsels]
            elif case.get("boxes_only"):
                fstar = [f for f in fsels if f[0] in (["name", names[0]], ["int", len(names) - 1],
                                                     ["slice", None, None, None])]
                pairs = [(f, b) for f in fstar for b in bsels]
            else:
                bstar = [b for b in bsels if b[0] in (["int", 0], ["int", nb - 1], ["slice", None, None, None])]
                fstar = [f for f in fsels if f[0] in (["name", names[0]], ["int", len(names) - 1],
                                                     ["slice", None, None, None])]
                pairs = [(f, b) for f in fsels for b in bstar] + [(f, b) for f in fstar for b in bsels]
            if lvcls == "C" and lvtag != nlev:
                pairs = [p_ for p_ in pairs if p_[0][1] == "A" and p_[1][1] == "A"][:4]      # a key that names no level: the box selector is irrelevant
            elif lvtag == -nlev and nlev > 1:
                pairs = pairs[::37]          # level 0 under its negative key: a thin slice of the selector product (level 0 has it in full)
            for (ftag, fcls, fidx), (btag, bcls, bsel) in pairs:
                cls = S.combine_class(fcls, lvcls, bcls)
                sub = {"field": ftag, "level": lvtag, "box": btag, "class": cls}
                st, val = call(lambda: pck[S.decode(ftag)][lvtag][S.decode(btag)])
                rec.exe([dh, ftag, lvtag, btag], nontrivial=(cls != "C"))
                if cls == "C":
                    if st != "exc":
                        rec.fail("must_raise", sub, "returned %s" % type(val).__name__)
                    continue
                if st == "exc":
                    if cls == "A":
                        rec.fail("raised", sub, exc_text(val))
                    continue
                exp = expected(ref, lv, fidx, bsel)
                if val is None:
                    rec.fail("returned_none", sub, "selection returned None")
                elif not same(val, exp):
                    shp = [getattr(v, "shape", None) for v in val] if isinstance(val, list) else getattr(val, "shape", None)
                    rec.fail("values", sub, "wrong data; got shape %s" % (shp,))
    # histories on ONE level stream object: consecutive reads through the same object
    nfl = len(names)
    for lv in range(ref.nlevels):
        nb = len(ref.boxes[lv])
        if case.get("boxes_only") and lv != case.get("devlevel"):
            continue
        for ftag, fidx in ((["list", list(range(1, nfl))], list(range(1, nfl))), (["slice", 1, None, None], slice(1, None)),
                           (["int", nfl - 1], nfl - 1), (["array", [nfl - 1]], [nfl - 1])):
            if nfl < 2:
                continue
            with vpool.controlled():
                def hist():
                    s_ = pck[S.decode(ftag)][lv]
                    outs = [s_[b] for b in range(nb)] + [s_[list(range(nb))]] + [s_[nb - 1]] + [s_[slice(None)]]
                    return outs
                st, val = call(hist)
            rec.exe([dh, "stream_history", lv, ftag], nontrivial=True, trans=nb + 3)
            sub = {"field": ftag, "level": lv, "box": ["history", "s=pck[f][lv]; s[0..nb-1]; s[[all]]; s[nb-1]; s[:]"], "class": "A"}
            if st == "exc":
                rec.fail("raised", sub, exc_text(val))
                continue
            exps = [expected(ref, lv, fidx, b) for b in range(nb)] + [expected(ref, lv, fidx, list(range(nb)))] + \
                   [expected(ref, lv, fidx, nb - 1)] + [expected(ref, lv, fidx, list(range(nb)))]
            for k, (v, e) in enumerate(zip(val, exps)):
                if not same(v, e):
                    rec.fail("values", dict(sub, call=k), "read %d through a re-used stream object returned wrong data" % k)
                    break
    # the caller EDITS what it was given (normalises it in place) and asks again: the same box at once, then every box, then a
    # multi-box selection - all through fresh selections of one reader, and again through a second reader of the same plotfile
    MARK = -3.25e91
    for lv in range(ref.nlevels):
        nb = len(ref.boxes[lv])
        if case.get("boxes_only") and lv != case.get("devlevel"):
            continue
        for ftag, fidx in ((["name", names[0]], 0), (["slice", None, None, None], slice(None))):
            with vpool.controlled():
                def edits():
                    outs = []
                    for b in range(min(nb, 4)):
                        a = pck[S.decode(ftag)][lv][b]
                        a[...] = MARK
                        outs.append(pck[S.decode(ftag)][lv][b])
                    many = pck[S.decode(ftag)][lv][list(range(min(nb, 4)))]
                    for a in many:
                        a[...] = MARK
                    outs.append(pck[S.decode(ftag)][lv][list(range(min(nb, 4)))])
                    outs.append(PlotfileCooker(path)[S.decode(ftag)][lv][min(nb, 4) - 1])
                    return outs
                st, val = call(edits)
            rec.exe([dh, "caller_edits", lv, ftag], nontrivial=True, trans=2 * min(nb, 4) + 3)
            sub = {"field": ftag, "level": lv, "box": ["history", "a=pck[f][lv][b]; a[...]=x; pck[f][lv][b] for each b; the same with a list of boxes; a second reader"], "class": "A"}
            if st == "exc":
                rec.fail("raised", sub, exc_text(val))
                continue
            exps = [expected(ref, lv, fidx, b) for b in range(min(nb, 4))] + [expected(ref, lv, fidx, list(range(min(nb, 4))))] + \
                   [expected(ref, lv, fidx, min(nb, 4) - 1)]
            for k, (v, e) in enumerate(zip(val, exps)):
                if not same(v, e):
                    rec.fail("values", dict(sub, call=k), "read %d after the caller edited an earlier result in place returned wrong data" % k)
                    break
    # multi-box selections under every order of the per-box read tasks (the result must stay in requested order)
    from .. import explorer
    for lv in range(ref.nlevels):
        nb = len(ref.boxes[lv])
        if not (2 <= nb <= 4) or (case.get("boxes_only") and lv != case.get("devlevel")):
            continue
        for btag, bsel in ((["slice", None, None, None], list(range(nb))), (["list", list(range(nb))[::-1]], list(range(nb))[::-1]),
                           (["maskarr", [True] * nb], list(range(nb)))):
            exp = expected(ref, lv, slice(None), bsel)

            def run(plan):
                with vpool.controlled(plan) as ctl:
                    r = call(lambda: pck[:][lv][S.decode(btag)])
                return ctl, r
            for plan, ctl, (st, val) in explorer.explore(run, bound=1):
                if not plan:
                    continue
                rec.exe([dh, "sched", lv, btag, explorer.plan_json(plan)], nontrivial=True, trans=sum(c["n"] for c in ctl.calls))
                sub = {"field": ["slice", None, None, None], "level": lv, "box": btag, "class": "A", "plan": explorer.plan_json(plan)}
                if st == "exc":
                    rec.fail("raised", sub, exc_text(val))
                elif not same(val, exp):
                    rec.fail("values", sub, "wrong data under this task order")
    # long index arrays that differ in the middle only, one after the other on the same reader (and the same as lists)
    if case.get("wide1100"):
        nf_ = len(names)
        for tag_, conv in (("array", lambda x: np.array(x)), ("list", list)):
            for drop in (500, 600, 7):
                idx_ = [i for i in range(nf_) if i != drop]
                with vpool.controlled():
                    st, val = call(lambda: pck[conv(idx_)][0][1])
                rec.exe([dh, "long_index", tag_, drop], nontrivial=True)
                sub = {"field": [tag_, "all %d fields but number %d" % (nf_, drop)], "level": 0, "box": ["int", 1], "class": "A"}
                if st == "exc":
                    rec.fail("raised", sub, exc_text(val))
                elif not same(val, expected(ref, 0, idx_, 1)):
                    rec.fail("values", sub, "wrong data for a %d-entry index %s" % (len(idx_), tag_))
    # LAST (it changes what is on disk): level stream objects that the caller keeps while another time step of the same run is
    # moved over the plotfile (every binary file replaced by rename: same names, layout and sizes, new inodes, other values) -
    # a selection returns what is stored on disk NOW
    from ..common import _negate_payloads, negated
    with vpool.controlled():
        kept = {}
        for lv in range(ref.nlevels):
            if case.get("boxes_only") and lv != case.get("devlevel"):
                continue
            kept[lv] = (pck[:][lv], pck[names[-1]][lv])
            call(lambda: kept[lv][0][0])
            call(lambda: kept[lv][1][len(ref.boxes[lv]) - 1])
    try:
        _negate_payloads(path, new_inodes=True)
        replaced = True
    except Exception:
        replaced = False
    if replaced:
        for lv, (s_all, s_last) in kept.items():
            nb = len(ref.boxes[lv])
            with vpool.controlled():
                st, val = call(lambda: [s_all[0], s_last[nb - 1], s_all[list(range(min(nb, 3)))], pck[:][lv][nb - 1]])
            rec.exe([dh, "time_step_replaced", lv], nontrivial=True, trans=4)
            sub = {"field": ["slice", None, None, None], "level": lv, "class": "A",
                   "box": ["history", "streams kept while the binary files were replaced by another time step (rename)"]}
            if st == "exc":
                rec.fail("raised", sub, exc_text(val))
                continue
            exps = [negated(expected(ref, lv, slice(None), 0)), negated(expected(ref, lv, len(names) - 1, nb - 1)),
                    [negated(e_) for e_ in expected(ref, lv, slice(None), list(range(min(nb, 3))))], negated(expected(ref, lv, slice(None), nb - 1))]
            for k, (v, e) in enumerate(zip(val, exps)):
                if not same(v, e):
                    rec.fail("values", dict(sub, call=k), "read %d returned what the plotfile held BEFORE it was replaced" % k)
                    break
    rec.sample({"desc": desc, "selection": "pck[field_sel][level][box_sel] over the selector alphabets"})
    return rec.result()


# ---- known-finding signatures (narrow predicates over the failing sub-case) -----------------
def _sig_slice_start(case, fail):
    f = fail["sub"]["field"]
    n = len(case["desc"]["fields"])
    if f[0] != "slice" or f[3] == -1:
        return False
    start = slice(f[1], f[2], f[3]).indices(n)[0]
    return start > 0 and fail["clause"] in ("values", "raised")


SIGNATURES = {"field_slice_start_gt0": _sig_slice_start}
