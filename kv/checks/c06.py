"""C06 - combine merges fields box by box, independent of either input's file layout."""
import os
import shutil
import itertools
from .. import scope, vpool, oracle, audit
from ..common import build, call, exc_text
from ..refmodel import ParsedPlot, tree_digest
from ..runner import Rec, h64

PROPERTY = "C06"
LEVEL = "model_checking"
RULE = ("case = pair (A, B) of generated 3D plotfiles on a common mesh with independently chosen layouts (all ordered set "
        "partitions x file numberings of one level for each side) and field sets (overlapping), or on mismatched meshes; "
        "execution = combine(A, B, out, vars1, vars2) for every selection form (None / string / list, unknown names, "
        "reordered), output parsed independently and compared with RefPlot.combine(); mismatched pairs must raise with no "
        "write-class file-system event; non-trivial = the two layouts differ or a selection is given or the pair mismatches")
ASSUMPTIONS = ["selections that leave the second side empty are outside the statement (the tool refuses them)",
               "controlled in-process pool, identity schedule (schedules in C12)"]
FA = ["temp", "density", "Y(H2)"]
FB = ["density", "Z", "Zvar"]


def bounds(tier):
    return {"boxes_per_level": 3, "layout_pairs": "all 24x24 on one level (quick: A x B over 13x13 canonical numberings + "
            "numbering variants on one side)" if tier == "quick" else "all 24x24 on each level",
            "selection_forms": ["None", "str", "list", "unknown names", "reordered"]}


def mesh():
    return {"ndims": 3, "domain": [4, 4, 2],
            "levels": [[[[0, 0, 0], [1, 3, 1]], [[2, 0, 0], [3, 1, 1]], [[2, 2, 0], [3, 3, 1]]],
                       [[[2, 2, 0], [5, 5, 3]], [[0, 6, 0], [1, 7, 1]], [[6, 0, 2], [7, 1, 3]]]]}


SELECTIONS = [
    (None, None),
    (["temp"], None),
    (["density", "temp"], ["Zvar", "Z"]),
    (["temp", "nope"], ["nope", "density", "Z"]),
    (None, ["Z"]),
    (["Y(H2)", "density"], ["density", "Zvar"]),
    (["Y(H2)", "temp", "density"], ["Zvar", "Z"]),
    (["density", "Y(H2)", "temp"], ["Zvar", "Z", "density"]),
]


def forms(sel):
    """every API form of one selection: None stays None; names as list and as blank separated string"""
    v1, v2 = sel
    f1 = [None] if v1 is None else [("list", v1), ("str", " ".join(v1))]
    f2 = [None] if v2 is None else [("list", v2), ("str", " ".join(v2))]
    for a in f1:
        for b in f2:
            yield a, b


def mismatches():
    m = mesh()
    out = []
    # different level count
    d = dict(m)
    d["levels"] = m["levels"][:1]
    out.append(("fewer_levels", d))
    # a box removed
    d = dict(m)
    d["levels"] = [m["levels"][0], m["levels"][1][:2]]
    out.append(("box_removed", d))
    # a box added
    d = dict(m)
    d["levels"] = [m["levels"][0], m["levels"][1] + [[[6, 6, 0], [7, 7, 1]]]]
    out.append(("box_added", d))
    # a box moved by one (fine) block
    d = dict(m)
    d["levels"] = [m["levels"][0], [m["levels"][1][0], [[0, 4, 0], [1, 5, 1]], m["levels"][1][2]]]
    out.append(("box_moved", d))
    # a box grown by one cell pair
    d = dict(m)
    d["levels"] = [m["levels"][0], [m["levels"][1][0], [[0, 6, 0], [1, 7, 3]], m["levels"][1][2]]]
    out.append(("box_grown", d))
    # same boxes permuted
    d = dict(m)
    d["levels"] = [m["levels"][0], [m["levels"][1][1], m["levels"][1][0], m["levels"][1][2]]]
    out.append(("permuted", d))
    # same index boxes, different dx / origin (applied on top of the case geometry in run_case)
    out.append(("other_dx", {"dx_scale": [2.0, 1.0, 1.0]}))
    out.append(("other_origin", {"origin_shift": [1.0, 0.0, 0.0]}))
    return out


def far_pair():
    """far-index template: a box at index >= 100000 shifted by one cell between A and B"""
    n = 100004
    a = {"ndims": 3, "domain": [n, 2, 2], "dx0": [2.0 ** -10, 0.5, 0.5],
         "levels": [[[[0, 0, 0], [1, 1, 1]], [[100000, 0, 0], [100001, 1, 1]]]]}
    b = dict(a)
    b["levels"] = [[[[0, 0, 0], [1, 1, 1]], [[100001, 0, 0], [100002, 1, 1]]]]
    return a, b


def cases(tier, seed):
    out = []
    m = mesh()
    geo = scope.rotate(list(scope.geometries(3)), seed)[0]
    nlev = len(m["levels"])
    L_all = scope.layouts(3, 'all')
    L_id = scope.layouts(3, 'id')
    for lv in range(nlev):
        if tier == "quick":
            pairs = [(a, b) for a in L_id for b in L_id]
            pairs += [(a, b) for a in L_all for b in (L_id[0], L_id[-1], L_id[5])]
            pairs += [(a, b) for b in L_all for a in (L_id[0], L_id[-1], L_id[5])]
        else:
            pairs = [(a, b) for a in L_all for b in L_all]
        seen = set()
        for a, b in pairs:
            k = h64([a, b])
            if k in seen:
                continue
            seen.add(k)
            la = [None] * nlev
            lb = [None] * nlev
            la[lv] = a
            lb[lv] = b
            out.append({"kind": "layout", "geo": geo, "la": la, "lb": lb, "seed": seed,
                        "sels": [0] if tier == "quick" else [0, 2], "forms": False})
    # both levels deviate together (quick: named classes; thorough: every canonical layout on every level of both inputs)
    named = [L_id[0], L_id[-1], L_id[5], L_id[7]] if tier == "quick" else L_id
    for a0, b0, a1, b1 in itertools.product(named, repeat=4):
        if tier == "quick" and not (a0 is named[0] or b0 is named[0]):
            continue
        out.append({"kind": "layout", "geo": geo, "la": [a0, a1], "lb": [b0, b1], "seed": seed, "sels": [0], "forms": False})
    if tier == "thorough":
        # a level with four boxes: all 73 x 73 pairs of ordered set partitions
        L4 = scope.layouts(4, 'id')
        for a in L4:
            for b in L4:
                out.append({"kind": "layout", "geo": geo, "la": [None, a], "lb": [None, b], "seed": seed, "sels": [0], "forms": False, "four": True})
    # every selection form on a few layout pairs
    for a, b in [(L_id[0], L_id[0]), (L_id[5], L_id[7]), (L_id[-1], L_id[0])]:
        out.append({"kind": "layout", "geo": geo, "la": [a, None], "lb": [b, a], "seed": seed,
                    "sels": list(range(len(SELECTIONS))), "forms": True, "w": 10})
    for name, mm in mismatches():
        out.append({"kind": "mismatch", "name": name, "geo": geo, "seed": seed})
        for xg in scope.extreme_geometries(3):
            out.append({"kind": "mismatch", "name": name, "geo": xg, "seed": seed})
    for xg in scope.extreme_geometries(3):
        out.append({"kind": "layout", "geo": xg, "la": [L_id[5], None], "lb": [L_id[7], L_id[-1]], "seed": seed, "sels": [0, 2], "forms": False})
    out.append({"kind": "far", "seed": seed})
    # the same layout on both sides (the by-file mode) with file numbers that have gaps / do not start at 0
    for lay in ({"files": [[0], [2, 1]], "nums": [1, 3]}, {"files": [[1], [0], [2]], "nums": [7, 2, 100000]}, {"files": [[2, 0, 1]], "nums": [4]}):
        for lv in range(nlev):
            la = [None] * nlev
            la[lv] = lay
            out.append({"kind": "layout", "geo": geo, "la": la, "lb": list(la), "seed": seed, "sels": [0, 2], "forms": False})
    # binary file numbers of different widths (Cell_D_99999 / Cell_D_100000 / Cell_D_10000): same layout on both sides (by-file
    # mode) and another layout on the second side (box-by-box mode)
    for first in (0, 1):
        for lay in (L_id[-1], L_id[5], L_id[7]):
            wl = scope.wide_numbers(lay, first)
            for lv in range(nlev):
                la = [None] * nlev
                la[lv] = wl
                for lb in (list(la), [L_id[7] if l_ is not None else None for l_ in la], [scope.wide_numbers(L_id[-1], 1 - first) if l_ is not None else None for l_ in la]):
                    out.append({"kind": "layout", "geo": geo, "la": la, "lb": lb, "seed": seed, "sels": [0, 2], "forms": False})
    # field names with a blank or a comma, selected through LISTS of names
    out.append({"kind": "blank_names", "geo": geo, "seed": seed, "w": 2})
    # the first input opened with a level limit below its finest level, the second a plotfile of exactly those levels
    out.append({"kind": "limited", "geo": geo, "seed": seed, "w": 2})
    # level directories named otherwise than Level_k, in either input or in both
    for pa_, pb_ in (("Lev_", "Level_"), ("Level_", "Lev_"), ("Lev_", "L")):
        out.append({"kind": "layout", "geo": geo, "la": [L_id[5], None], "lb": [L_id[7], L_id[-1]], "seed": seed, "sels": [0, 2], "forms": False,
                    "prefixes": [pa_, pb_]})
    # seven levels towards the far corner, twelve fields on each side: FAB header lines longer than 100 bytes
    L2 = scope.layouts(2, 'idrev')
    out.append({"kind": "layout", "geo": geo, "la": [None, L2[-1], None, L2[1], None, None, L2[2]], "lb": [L2[1], None, L2[-1], L2[2], None, L2[-1], None],
                "seed": seed, "sels": [0, 2], "forms": False, "deep": True, "w": 20})
    return out


def sys_combine():
    import sys
    import amr_kitchen  # noqa
    return sys.modules["amr_kitchen.combine.combine"].combine


def do_combine(pa, pb, out, v1, v2, aspath=False):
    """aspath: the three paths are given as pathlib.Path objects (honoured, or refused - then the call is repeated with strings)"""
    from amr_kitchen import PlotfileCooker
    from amr_kitchen.combine import combine as cmb
    import amr_kitchen
    import sys
    import pathlib
    fn = sys.modules["amr_kitchen.combine.combine"].combine
    if aspath:
        with vpool.controlled() as ctl:
            with audit.recording() as ev:
                st, val = call(lambda: fn(PlotfileCooker(pathlib.Path(pa)), PlotfileCooker(pathlib.Path(pb)), pltout=pathlib.Path(out), vars1=v1, vars2=v2))
        if st != "exc":
            return st, val, ctl, ev
        shutil.rmtree(out, ignore_errors=True)
    with vpool.controlled() as ctl:
        with audit.recording() as ev:
            st, val = call(lambda: fn(PlotfileCooker(pa), PlotfileCooker(pb), pltout=out, vars1=v1, vars2=v2))
    return st, val, ctl, ev


def run_blank_names(case, workdir):
    from amr_kitchen import PlotfileCooker
    rec = Rec()
    seed = case["seed"]
    m = mesh()
    m.update(case["geo"])
    L_id = scope.layouts(3, 'id')
    fa, fb = ["temp", "mass fraction", "a,b"], ["x velocity", "Z", "mass fraction"]
    da = dict(m, fields=fa, layout=[L_id[5], None], seed=seed)
    db = dict(m, fields=fb, layout=[L_id[-1], L_id[7]], seed=seed + 1, payload="signed")
    pa, ra = build(da, workdir, "pltA")
    pb, rb = build(db, workdir, "pltB")
    fn = sys_combine()
    for k, (v1, v2) in enumerate(((None, None), (["mass fraction", "temp"], ["x velocity"]), (["a,b"], ["mass fraction", "Z"]), (["temp"], None))):
        out = os.path.join(workdir, "out_bn%d" % k)
        with vpool.controlled() as ctl:
            st, val = call(lambda: fn(PlotfileCooker(pa), PlotfileCooker(pb), pltout=out, vars1=v1, vars2=v2))
        sub = {"vars1": v1, "vars2": v2, "names": "with blanks / commas, given as lists"}
        rec.exe([h64([da, db]), "blank_names", k], nontrivial=True, trans=1 + sum(c["n"] for c in ctl.calls))
        if st == "exc":
            rec.fail("raised", sub, exc_text(val))
            continue
        pp = oracle.parse_output(rec, sub, out)
        if pp is not None:
            oracle.compare_contents(rec, sub, pp, ra.combine(rb, v1, v2))
            oracle.taste_accepts(rec, sub, out)
    rec.sample({"blank_names": True})
    return rec.result()


def run_limited(case, workdir):
    """combine(PlotfileCooker(A, limit_level=0), PlotfileCooker(B0)) where A has two levels and B0 is a one-level plotfile on
    A's level-0 mesh: the result is the merge of the level-0 contents"""
    from amr_kitchen import PlotfileCooker
    rec = Rec()
    seed = case["seed"]
    m = mesh()
    m.update(case["geo"])
    L_id = scope.layouts(3, 'id')
    da = dict(m, fields=FA, layout=[L_id[5], L_id[7]], seed=seed)
    db = dict(m, fields=FB, layout=[L_id[-1]], seed=seed + 1, payload="signed")
    db["levels"] = m["levels"][:1]
    pa, ra = build(da, workdir, "pltA")
    pb, rb = build(db, workdir, "pltB0")
    before = (tree_digest(pa), tree_digest(pb))
    fn = sys_combine()
    for k, (v1, v2) in enumerate(((None, None), (["temp"], ["Zvar", "Z"]))):
        out = os.path.join(workdir, "out_lim%d" % k)
        with vpool.controlled() as ctl:
            st, val = call(lambda: fn(PlotfileCooker(pa, limit_level=0), PlotfileCooker(pb), pltout=out, vars1=v1, vars2=v2))
        sub = {"first_input": "opened with limit_level=0 (two levels on disk)", "vars1": v1, "vars2": v2}
        rec.exe([h64([da, db]), "limited", k], nontrivial=True, trans=1 + sum(c["n"] for c in ctl.calls))
        if st == "exc":
            rec.fail("raised", sub, exc_text(val))
            continue
        pp = oracle.parse_output(rec, sub, out)
        if pp is not None:
            oracle.compare_contents(rec, sub, pp, ra.strain(["all"], 0).combine(rb, v1, v2))
            oracle.taste_accepts(rec, sub, out)
    if (tree_digest(pa), tree_digest(pb)) != before:
        rec.fail("input_modified", {}, "")
    rec.sample({"limited": True})
    return rec.result()


def run_case(case, workdir):
    rec = Rec()
    seed = case["seed"]
    if case["kind"] == "far":
        a, b = far_pair()
        da = dict(a, fields=FA, seed=seed)
        db = dict(b, fields=FB, seed=seed)
        pa, ra = build(da, workdir, "pltA")
        pb, rb = build(db, workdir, "pltB")
        out = os.path.join(workdir, "outfar")
        st, val, ctl, ev = do_combine(pa, pb, out, None, None)
        sub = {"mismatch": "far_index_box_shifted_by_one_cell"}
        rec.exe([case], nontrivial=True)
        if st != "exc":
            rec.fail("mismatch_accepted", sub, "boxes at index 100000 and 100001 combined as if equal")
        elif ev:
            rec.fail("mismatch_wrote", sub, "events %r" % ev[:3])
        return rec.result()
    if case["kind"] == "limited":
        return run_limited(case, workdir)
    if case["kind"] == "blank_names":
        return run_blank_names(case, workdir)
    m = mesh()
    fa_, fb_ = FA, FB
    if case.get("deep"):
        m = dict(scope.deep_corner_mesh())
        fa_ = FA + ["pa%d" % i for i in range(12 - len(FA))]
        fb_ = FB + ["pb%d" % i for i in range(12 - len(FB))]
    m.update(case["geo"])
    if case["kind"] == "mismatch":
        da = dict(m, fields=FA, seed=seed)
        ov = dict([x for x in mismatches() if x[0] == case["name"]][0][1])
        mm = dict(m)
        if "dx_scale" in ov:
            mm["dx0"] = [a * b for a, b in zip(m["dx0"], ov.pop("dx_scale"))]
        if "origin_shift" in ov:
            mm["origin"] = [a + b for a, b in zip(m["origin"], ov.pop("origin_shift"))]
        mm.update({k: v for k, v in ov.items() if k == "levels"})
        db = dict(mm, fields=FB, seed=seed)
        pa, ra = build(da, workdir, "pltA")
        pb, rb = build(db, workdir, "pltB")
        before = (audit.snapshot(pa), audit.snapshot(pb))
        for (x, y, tag) in ((pa, pb, "A,B"), (pb, pa, "B,A")):
            out = os.path.join(workdir, "out_" + tag.replace(",", ""))
            st, val, ctl, ev = do_combine(x, y, out, None, None)
            sub = {"mismatch": case["name"], "order": tag}
            rec.exe([case, tag], nontrivial=True)
            if st != "exc":
                if case["name"] == "permuted":
                    # same boxes in another order: either refused, or combined correctly box by box
                    rx, ry = (ra, rb) if tag == "A,B" else (rb, ra)
                    pp = oracle.parse_output(rec, sub, out)
                    if pp is not None:
                        oracle.compare_contents(rec, sub, pp, rx.combine(ry))
                else:
                    rec.fail("mismatch_accepted", sub, "combine returned normally")
            else:
                if ev:
                    rec.fail("mismatch_wrote", sub, "write-class events before refusal: %r" % ev[:3])
                if os.path.exists(out):
                    rec.fail("mismatch_wrote", sub, "output directory exists after refusal")
        if (audit.snapshot(pa), audit.snapshot(pb)) != before:
            rec.fail("input_modified", {"mismatch": case["name"]}, "")
        return rec.result()
    if case.get("four"):
        m["levels"] = [m["levels"][0], m["levels"][1] + [[[0, 0, 0], [1, 1, 1]]]]
    da = dict(m, fields=fa_, layout=case["la"], seed=seed)
    db = dict(m, fields=fb_, layout=case["lb"], seed=seed + 1, payload="signed")
    if case.get("prefixes"):
        da["levelprefix"], db["levelprefix"] = case["prefixes"]
    pa, ra = build(da, workdir, "pltA")
    pb, rb = build(db, workdir, "pltB")
    pina, pinb = ParsedPlot(pa), ParsedPlot(pb)
    before = (tree_digest(pa), tree_digest(pb))
    dh = h64([da, db])
    k = 0
    for si in case["sels"]:
        sel = SELECTIONS[si]
        fl = list(forms(sel)) if case["forms"] else [next(forms(sel))]
        for f1, f2 in fl:
            k += 1
            out = os.path.join(workdir, "out%d" % k)
            v1 = None if f1 is None else f1[1]
            v2 = None if f2 is None else f2[1]
            sub = {"la": case["la"], "lb": case["lb"], "vars1": v1, "vars2": v2,
                   "form1": None if f1 is None else f1[0], "form2": None if f2 is None else f2[0]}
            st, val, ctl, ev = do_combine(pa, pb, out, v1, v2, aspath=(k + dh) % 3 == 0)
            nontriv = case["la"] != case["lb"] or sel != (None, None)
            rec.exe([dh, sub], nontrivial=nontriv, trans=1 + sum(c["n"] for c in ctl.calls))
            if st == "exc":
                rec.fail("raised", sub, exc_text(val))
                continue
            exp = ra.combine(rb, sel[0], sel[1])
            pp = oracle.parse_output(rec, sub, out)
            if pp is None:
                continue
            same_mesh = oracle.compare_contents(rec, sub, pp, exp)
            n1 = len([x for x in (sel[0] if sel[0] is not None else ra.fields) if x in ra.fields])
            names1 = exp.fields[:n1]
            names2 = exp.fields[n1:]

            def rows(lv, box):
                b1 = pina.levels[lv].index.index(box)
                b2 = pinb.levels[lv].index.index(box)
                mn = [pina.levels[lv].mins[b1][ra.fields.index(v)] for v in names1] + \
                     [pinb.levels[lv].mins[b2][rb.fields.index(v)] for v in names2]
                mx = [pina.levels[lv].maxs[b1][ra.fields.index(v)] for v in names1] + \
                     [pinb.levels[lv].maxs[b2][rb.fields.index(v)] for v in names2]
                return mn, mx
            if pp.finest + 1 == exp.nlevels and all(sorted(pp.levels[lv].index) == sorted(exp.boxes[lv]) for lv in range(exp.nlevels)):
                oracle.compare_minmax_tokens(rec, sub, pp, rows)
            oracle.taste_accepts(rec, sub, out)
            for e, p in ev:
                if audit.inside(p, pa) or audit.inside(p, pb):
                    rec.fail("wrote_into_input", sub, "%s %s" % (e, p))
            shutil.rmtree(out, ignore_errors=True)
    if case["forms"]:
        # history: ONE PlotfileCooker object is the first input of three combines
        from amr_kitchen import PlotfileCooker
        fn = sys_combine()
        with vpool.controlled():
            def hist():
                p1, p2 = PlotfileCooker(pa), PlotfileCooker(pb)
                outs = []
                for k2 in range(3):
                    # (the SAME output name for the three requests, moved aside after each: a request is answered for its own
                    # arguments, whatever the same readers were asked before for the same output)
                    o = os.path.join(workdir, "out_h%d" % k2)
                    same_ = os.path.join(workdir, "out_same")
                    fn(p1, p2, pltout=same_, vars2=[["Z"], ["Zvar"], None][k2])
                    os.rename(same_, o)
                    outs.append(o)
                # ... and then the two readers change roles (the reader that was the second input three times is the first now)
                o = os.path.join(workdir, "out_h3")
                fn(p2, p1, pltout=o)
                outs.append(o)
                return outs
            st, val = call(hist)
        rec.exe([dh, "history"], nontrivial=True, trans=3)
        if st == "exc":
            rec.fail("history_raised", {"history": "three combines with one reader object as first input"}, exc_text(val))
        else:
            for k2, o in enumerate(val):
                pp = oracle.parse_output(rec, {"history_step": k2}, o)
                if pp is not None:
                    oracle.compare_contents(rec, {"history": "three combines with one reader object as first input, then the readers change roles", "step": k2}, pp,
                                            ra.combine(rb, None, [["Z"], ["Zvar"], None][k2]) if k2 < 3 else rb.combine(ra, None, None), prefix="history_")
                    oracle.taste_accepts(rec, {"history_step": k2}, o)
        import amr_kitchen.combine.cli as ccli
        from ..common import run_cli
        for v1, v2, sel in ((None, None, (None, None)), ("density temp", "Zvar,Z", (["density", "temp"], ["Zvar", "Z"])),
                            ("temp,nope", "nope density Z", (["temp", "nope"], ["nope", "density", "Z"]))):
            out = os.path.join(workdir, "out_cli")
            shutil.rmtree(out, ignore_errors=True)
            argv = ["combine", "-p1", pa, "-p2", pb, "-o", out] + (["-v1", v1] if v1 else []) + (["-v2", v2] if v2 else [])
            with vpool.controlled():
                st, val = run_cli(ccli.main, argv)
            rec.exe([dh, "cli", v1, v2], nontrivial=True)
            sub = {"argv": argv}
            if st != "ok":
                rec.fail("cli_failed", sub, "%s %s" % (st, val))
                continue
            pp = oracle.parse_output(rec, sub, out)
            if pp is not None:
                oracle.compare_contents(rec, sub, pp, ra.combine(rb, sel[0], sel[1]))
    if (tree_digest(pa), tree_digest(pb)) != before:
        rec.fail("input_modified", {}, "")
    rec.sample({"A": da, "B": db, "selections": [SELECTIONS[i] for i in case["sels"]]})
    return rec.result()


def _sig_none(case, fail):
    return False


SIGNATURES = {}
