"""C03 - taste accepts every well-formed plotfile under every option combination."""
import itertools
from .. import scope, vpool, explorer
from ..common import build, call, exc_text
from ..runner import Rec, h64
from . import c01

CASE_TIMEOUT = 1500
PROPERTY = "C03"
LEVEL = "model_checking"
RULE = ("case = generated plotfile (C01 universe incl. scattered / non-monotone layouts, non-finite payloads - NaN-free "
        "where binary_data is enabled because min/max rows of NaN data are undefined); execution = one "
        "Taster(path, limit, 4 option flags, nofail) - must not raise and must evaluate true; non-trivial = every "
        "execution (all are expected to accept), distinct by (descriptor, options)")
ASSUMPTIONS = ["controlled in-process pool; option combinations under the identity schedule, the full validation (all checks enabled) "
               "additionally under every order of the per-file tasks of each pool call x lazy|eager on multi-file layouts"]
OPTS = list(itertools.product([True, False], repeat=4))   # headers, shape, data, coords


def bounds(tier):
    return {"option_combinations": 16, "limit_level": "None, 0..finest", "modes": ["fail", "nofail"]}


def cases(tier, seed):
    out = []
    seen = set()
    for c in c01.cases(tier, seed):
        d = dict(c["desc"])
        nf = len(d["fields"])
        if tier == "quick" and nf == 3 and d["payload"] == "coded" and c.get("devlevel") is not None:
            continue
        special = min(min(h - l for l, h in zip(lo, hi)) for lv in d["levels"] for lo, hi in lv) == 0 or d["domain"][0] > 1000
        if tier == "quick" and special and c.get("devlevel") is not None and nf != 2:
            continue
        for payload in (["hostile", "hostile_nonan", "huge"] if d["payload"] == "hostile" else ["coded"]):
            d2 = dict(d)
            d2["payload"] = payload
            k = h64(d2)
            if k in seen:
                continue
            seen.add(k)
            nfiles = max(len(l["files"]) if l else 1 for l in d2["layout"])
            out.append({"desc": d2, "w": len(d2["levels"]) * (3 if nfiles > 1 else 1), "schedules": 2 <= nfiles <= 4})
    out.append(scale_case(seed))
    return out


def scale_case(seed):
    """65 600 boxes of 2 x 2 x 2 cells on one level, in two binary files (more boxes than 2^16)"""
    n = 65600
    d = {"ndims": 3, "domain": [2 * n, 2, 2], "levels": [[[[2 * i, 0, 0], [2 * i + 1, 1, 1]] for i in range(n)]],
         "fields": ["temp", "density"], "payload": "coded", "seed": seed, "origin": [0.0, 0.0, 0.0], "dx0": [0.25, 0.25, 0.25],
         "layout": [{"files": [list(range(0, n, 2)), list(range(1, n, 2))], "nums": [1, 0]}]}
    return {"desc": d, "w": 400, "scale": True}


def run_case(case, workdir):
    from amr_kitchen.taste import Taster
    rec = Rec()
    desc = case["desc"]
    if case.get("scale"):
        path, ref = build(desc, workdir, prehistory=False, pathform="plain")
        dh = h64(["scale", desc["seed"], len(desc["levels"][0])])
        for (bh, bs) in ((True, True), (False, True)):
            for nofail in (False, True):
                sub = {"limit_level": None, "binary_headers": bh, "binary_shape": bs, "binary_data": False, "boxes_coordinates": False, "nofail": nofail,
                       "boxes_on_level_0": len(desc["levels"][0])}
                with vpool.controlled() as ctl:
                    st, val = call(lambda: Taster(path, binary_headers=bh, binary_shape=bs, nofail=nofail, verbose=0))
                rec.exe([dh, sub], nontrivial=True, trans=1 + sum(c["n"] for c in ctl.calls))
                if st == "exc":
                    rec.fail("raised", sub, exc_text(val))
                elif not bool(val):
                    rec.fail("rejected", sub, "bool(Taster) is False on a well-formed plotfile")
        rec.sample({"scale": True, "boxes": len(desc["levels"][0])})
        return rec.result()
    path, ref = build(desc, workdir)
    dh = h64(desc)
    # shallow-first or deep-first, depending on the case: process-lifetime state must not care which comes first
    limits = [None] + list(range(ref.nlevels))
    if dh % 2:
        limits = list(range(ref.nlevels)) + [None]
    for limit in limits:
        for (bh, bs, bd, bc) in OPTS:
            if bd and desc["payload"] == "hostile":
                continue       # NaN payload x binary_data: undefined min/max rows, no demand
            for nofail in (False, True):
                sub = {"limit_level": limit, "binary_headers": bh, "binary_shape": bs, "binary_data": bd,
                       "boxes_coordinates": bc, "nofail": nofail}
                with vpool.controlled() as ctl:
                    st, val = call(lambda: Taster(path, limit_level=limit, binary_headers=bh, binary_shape=bs,
                                                  binary_data=bd, boxes_coordinates=bc, nofail=nofail, verbose=0))
                rec.exe([dh, sub], nontrivial=True, trans=1 + sum(c["n"] for c in ctl.calls))
                if st == "exc":
                    rec.fail("raised", sub, exc_text(val))
                elif not bool(val):
                    rec.fail("rejected", sub, "bool(Taster) is False on a well-formed plotfile")
    # the default verbosity (what the command line uses) and the chatty one run other code: same verdict demanded
    for (bh, bs, bd, bc) in (OPTS if (dh % 4 == 0 or case.get("schedules")) else []):
        if bd and desc["payload"] == "hostile":
            continue
        for verbose in (None, 2):
            sub = {"limit_level": None, "binary_headers": bh, "binary_shape": bs, "binary_data": bd, "boxes_coordinates": bc,
                   "nofail": bool(bh), "verbose": verbose}
            with vpool.controlled() as ctl:
                st, val = call(lambda: Taster(path, binary_headers=bh, binary_shape=bs, binary_data=bd, boxes_coordinates=bc,
                                              nofail=bool(bh), verbose=verbose))
            rec.exe([dh, sub], nontrivial=True, trans=1 + sum(c["n"] for c in ctl.calls))
            if st == "exc":
                rec.fail("raised", sub, exc_text(val))
            elif not bool(val):
                rec.fail("rejected", sub, "bool(Taster) is False on a well-formed plotfile")
    # the command line entry point: every flag combination must end normally on a well-formed plotfile
    import amr_kitchen.taste.cli as tcli
    from ..common import run_cli
    for (bh, bs, bd, bc) in OPTS:
        if bd and desc["payload"] == "hostile":
            continue
        for nofail in (False, True):
            argv = ["taste", path] + (["-v", "0"] if nofail else []) + ([] if bh else ["-nh"]) + ([] if bs else ["-ns"]) + (["-bd"] if bd else []) \
                + (["-bc"] if bc else []) + (["-nf"] if nofail else []) + (["-l", str(ref.nlevels - 1)] if bc else [])
            with vpool.controlled():
                st, val = run_cli(tcli.main, argv)
            rec.exe([dh, "cli", argv[2:], nofail], nontrivial=True)
            if st != "ok":
                rec.fail("cli_rejected", {"argv": argv}, "%s %s" % (st, val))
    # every schedule of every pool call of the full validation (headers + shape + data + coordinates)
    if case.get("schedules"):
        def run(plan):
            with vpool.controlled(plan) as ctl:
                r = call(lambda: Taster(path, binary_data=desc["payload"] != "hostile", boxes_coordinates=True, nofail=False, verbose=0))
            return ctl, r
        for plan, ctl, (st, val) in explorer.explore(run, bound=1):
            if not plan:
                continue
            sub = {"options": "all checks enabled", "plan": explorer.plan_json(plan)}
            rec.exe([dh, sub], nontrivial=True, trans=sum(c["n"] for c in ctl.calls))
            if st == "exc":
                rec.fail("raised_under_schedule", sub, exc_text(val))
            elif not bool(val):
                rec.fail("rejected_under_schedule", sub, "bool(Taster) is False on a well-formed plotfile")
    rec.sample({"desc": desc, "options": "16 flag combinations x limit x fail/nofail"})
    return rec.result()


def _sig_bindata(case, fail):
    s = fail["sub"]
    return s["binary_data"] and (not s["binary_headers"] or not s["binary_shape"])


SIGNATURES = {"binary_data_with_disabled_default_check": _sig_bindata}
