"""C14 - tool outputs are valid tool inputs: pipelines equal the composed pure operations."""
import os
import sys
import shutil
import collections
import numpy as np
from .. import scope, vpool, oracle, chkmodel
from ..common import build, call, exc_text
from ..refmodel import ParsedPlot, RefPlot, tree_digest, normalise_desc
from ..runner import Rec, h64

PROPERTY = "C14"
LEVEL = "model_checking"
RULE = ("explicit-state breadth-first search over tool histories: state = plotfile directory + expected in-memory contents "
        "(RefPlot); transitions = colander(vars in {all, [first], [last,first], [unknown,second]}, limit in {None,0}), "
        "chef(2-argument user recipe on the first field, kept in {None, first, 'third first'}), combine(current, other) and combine(other, "
        "current) for other in {sibling on the same mesh with other fields and another layout, every ancestor of the history}; "
        "roots = a 2D and two 3D generated plotfiles and a chk2plt conversion; every state is deduplicated on a canonical key "
        "(contents bits + on-disk layout) and checked: reference validation, taste (default + coordinates), contents = the "
        "same pure operations applied to the RefPlot; refusals (mismatched combine, nothing to add) must raise; "
        "non-trivial = states at depth >= 2; plus, on a thermochemical plotfile with undefined states (3 layouts): cook with "
        "kept fields (3-argument user recipe, ENT, SDi, HRR; serial and pooled), combine back in both orders, strain all - "
        "kept and original components bit-equal to the input")
ASSUMPTIONS = ["controlled in-process pool, identity schedule", "combine inputs are opened once per state and the reader object is re-used by every combine of that state", "field names stay unique along a history (events that would repeat a name are disabled)"]
CASE_TIMEOUT = 3000

RECIPE = '''def recipe(field_indexes, box_array):
    """
    ck
    """
    return box_array[:, :, :, 0] * 2.0 + 1.0
'''
RECIPE2 = '''def recipe(field_indexes, box_array):
    """
    ck2
    """
    return box_array[:, :, :, 0] * 0.5 - 3.0
'''


def bounds(tier):
    return {"depth": 3 if tier == "quick" else 5, "roots": ["2D", "3D two levels", "3D three levels", "chk2plt output"],
            "alphabet": "8 colander + 4 chef + 2 x (sibling + ancestors) combine events per state"}


def roots(seed):
    m2 = scope.named_meshes(2)[1]
    m3a = scope.named_meshes(3)[1]
    m3b = scope.named_meshes(3)[2]
    geos2 = scope.rotate(list(scope.geometries(2)), seed)
    geos3 = scope.rotate(list(scope.geometries(3)), seed)
    out = []
    for name, m, geo in (("2d", m2, geos2[1]), ("3d2", m3a, geos3[1]), ("3d3", m3b, geos3[2])):
        d = dict(m)
        d.update(geo)
        d.update({"fields": ["temp", "density", "Z"], "payload": "hostile_nonan" if name == "3d2" else ["signed", "huge", "pos"], "seed": seed,
                  "time": scope.rotate(scope.TIMES, seed)[0],
                  "layout": [scope.layouts(len(b), 'idrev')[-1] for b in m["levels"]]})
        if name == "3d3":
            # (binary file numbers of different widths in this root: Cell_D_99999 / Cell_D_100000 / Cell_D_100001)
            d["layout"] = [scope.wide_numbers(l_, 1) if len(l_["files"]) > 1 else l_ for l_ in d["layout"]]
        s = dict(d)
        s.update({"fields": ["Zvar", "density", "Y(H2)"], "seed": seed + 1, "payload": "coded",
                  "layout": [scope.layouts(len(b), 'idrev')[len(scope.layouts(len(b), 'idrev')) // 2] for b in m["levels"]]})
        out.append((name, d, s))
    return out


def cases(tier, seed):
    depth = bounds(tier)["depth"]
    out = []
    for name, d, s in roots(seed):
        for first in range(16):
            out.append({"root": name, "first": first, "depth": depth, "seed": seed, "w": 1})
    for first in range(16):
        out.append({"root": "chk", "first": first, "depth": depth, "seed": seed, "w": 1})
    for layout in range(3):
        for cook in range(len(THERMO_COOKS)):
            for serial in ((1, 0) if tier == "thorough" or cook < 2 else (1,)):
                out.append({"root": "thermo", "layout": layout, "cook": cook, "serial": serial, "seed": seed, "w": 2})
    return out


THERMO_COOKS = [("USER_S", "Y(O2) temp"), ("USER_S", "temp Y(H2) Y(O2) Zmix"), ("ENT", "Y(O2) temp"), ("SDi", "Y(O2) Y(N2)"), ("HRR", "temp density")]


def run_thermo_case(case, workdir):
    """the 'in particular' clause on a thermochemical plotfile (cells with an empty composition at a non-zero temperature,
    cells at T = 0): cook with kept fields (3-argument user recipe / built-in Cantera recipes), combine back in both orders,
    strain everything.  The NEW components are taken as written (their values are C11's subject); every kept and every
    original component must be the input's, bit for bit."""
    from amr_kitchen.chef import Chef
    from amr_kitchen.colander import Colander
    from amr_kitchen import PlotfileCooker
    from ..refmodel import write_plotfile
    from . import c11
    rec = Rec()
    d = c11.thermo_desc(case["seed"], case["layout"])
    ref = c11.thermo_ref(d)
    src = os.path.join(workdir, "plt_thermo")
    write_plotfile(d, src, ref=ref)
    before = tree_digest(src)
    rname, kept = THERMO_COOKS[case["cook"]]
    recipe = rname
    if rname == "USER_S":
        recipe = os.path.join(workdir, "rs.py")
        with open(recipe, "w") as f:
            f.write(c11.RS)
    kw = {"species": ["H2"]} if rname == "SDi" else {}
    sub = {"root": "thermo", "layout": case["layout"], "recipe": rname, "kept": kept}
    out = os.path.join(workdir, "cooked")
    with vpool.controlled():
        st, val = call(lambda: Chef(src, recipe=recipe, outfile=out, mech=c11.MECH, pressure=1.0, serial=bool(case["serial"]), kept_fields=kept, **kw).cook())
    rec.exe(["thermo", "chef", rname, kept, case["layout"]], nontrivial=True)
    if st == "exc":
        rec.fail("raised", sub, exc_text(val))
        return rec.result()
    pp = oracle.parse_output(rec, sub, out)
    if pp is None:
        return rec.result()
    kn = kept.split()
    ki = [ref.fields.index(k_) for k_ in kn]
    got = pp.to_refplot()
    if got.fields[:len(kn)] != kn or got.boxes != ref.boxes:
        rec.fail("fields", sub, "cooked fields %r on boxes equal to the input's: %r" % (got.fields, got.boxes == ref.boxes))
        return rec.result()
    new = got.fields[len(kn):]
    cooked = ref.with_fields(kn + new, lambda lv, b: np.concatenate([ref.data[lv][b][..., ki], got.data[lv][b][..., len(kn):]], axis=-1))
    ok = check_state(rec, dict(sub, step="cooked"), out, cooked)
    fn = sys.modules["amr_kitchen.combine.combine"].combine
    for order, a, b, pa, pb in (("orig,cooked", ref, cooked, src, out), ("cooked,orig", cooked, ref, out, src)):
        o2 = os.path.join(workdir, "comb_" + order.replace(",", "_"))
        with vpool.controlled():
            st, val = call(lambda: fn(PlotfileCooker(pa), PlotfileCooker(pb), pltout=o2))
        rec.exe(["thermo", "combine", order, rname, kept, case["layout"]], nontrivial=True)
        s2 = dict(sub, step="combine " + order)
        if st == "exc":
            rec.fail("raised", s2, exc_text(val))
            continue
        if ok:
            check_state(rec, s2, o2, a.combine(b))
        o3 = o2 + "_strained"
        with vpool.controlled():
            st, val = call(lambda: Colander(plotfile=o2, limit_level=None, output=o3, variables=["all"]).strain())
        rec.exe(["thermo", "colander", order, rname, kept, case["layout"]], nontrivial=True)
        if st == "exc":
            rec.fail("raised", dict(s2, step="strain all after combine " + order), exc_text(val))
        elif ok:
            check_state(rec, dict(s2, step="strain all after combine " + order), o3, a.combine(b))
    if tree_digest(src) != before:
        rec.fail("input_modified", sub, "the thermochemical input changed on disk")
    rec.sample({"root": "thermo", "layout": case["layout"], "cook": [rname, kept], "serial": case["serial"]})
    return rec.result()


State = collections.namedtuple("State", "path ref hist depth")
READERS = {}


def layout_sig(path):
    pp = ParsedPlot(path)
    return [[(f, o) for f, o in zip(pl.files, pl.offsets)] for pl in pp.levels]


def canon(st):
    import hashlib
    h = hashlib.sha1()
    r = st.ref
    h.update(repr((r.fields, r.boxes, r.time, r.geo_lo, r.geo_hi, r.dx)).encode())
    for lvd in r.data:
        for a in lvd:
            h.update(np.ascontiguousarray(a).tobytes())
    h.update(repr(layout_sig(st.path)).encode())
    return h.hexdigest()


def events(st, sibling, ancestors):
    """the finite menu of enabled events in a state"""
    f = st.ref.fields
    ev = []
    sels = [["all"], [f[0]], [f[-1], f[0]] if len(f) > 1 else [f[0]], ["nope", f[1]] if len(f) > 1 else ["nope", f[0]]]
    for sel in sels:
        for lim in (None, 0):
            ev.append(("colander", sel, lim))
    if st.ref.ndims == 3:
        for rname, new in (("r1", "ck"), ("r2", "ck2")):
            for kept in (None, f[0]) + ((f[2] + " " + f[0],) if len(f) >= 3 and rname == "r1" and " " not in f[2] + f[0] else ()):
                names = (kept.split() if kept else []) + [new]
                if len(set(names)) == len(names):
                    ev.append(("chef", rname, kept))
        others = ([("sibling", sibling)] if sibling is not None else []) + [("anc%d" % i, a) for i, a in enumerate(ancestors)]
        for oname, o in others:
            ev.append(("combine", "cur," + oname, o))
            ev.append(("combine", oname + ",cur", o))
    return ev


def apply_event(ev, st, workdir, k, recipes):
    """run the real tool; returns (status, exception or None, output path, expected RefPlot or 'refused')"""
    from amr_kitchen.colander import Colander
    from amr_kitchen.chef import Chef
    from amr_kitchen import PlotfileCooker
    out = os.path.join(workdir, "s%d" % k)
    kind = ev[0]
    if kind == "colander":
        _, sel, lim = ev
        exp = st.ref.strain(sel, lim)
        with vpool.controlled():
            r = call(lambda: Colander(plotfile=st.path, limit_level=lim, output=out, variables=sel).strain())
        return r, out, exp
    if kind == "chef":
        _, rname, kept = ev
        coef = (2.0, 1.0) if rname == "r1" else (0.5, -3.0)
        new = "ck" if rname == "r1" else "ck2"
        ref = st.ref
        ki = [ref.fields.index(k_) for k_ in kept.split()] if kept else []

        def arr(lv, b):
            a = ref.data[lv][b]
            return np.concatenate([a[..., ki], (a[..., 0] * coef[0] + coef[1])[..., None]], axis=-1)
        exp = ref.with_fields((kept.split() if kept else []) + [new], arr)
        with vpool.controlled():
            r = call(lambda: Chef(st.path, recipe=recipes[rname], outfile=out, serial=True, kept_fields=kept).cook())
        return r, out, exp
    if kind == "combine":
        _, order, other = ev
        a, b = (st, other) if order.startswith("cur,") else (other, st)
        same_mesh = a.ref.boxes == b.ref.boxes and a.ref.nlevels == b.ref.nlevels
        adds = [v for v in b.ref.fields if v not in a.ref.fields]
        fn = sys.modules["amr_kitchen.combine.combine"].combine

        def reader(s_):
            # ONE reader object per state, shared by every combine that state takes part in (a reader is a view of the
            # directory: using it as an input must not change what it says)
            if s_.path not in READERS:
                READERS[s_.path] = PlotfileCooker(s_.path)
            return READERS[s_.path]
        with vpool.controlled():
            r = call(lambda: fn(reader(a), reader(b), pltout=out))
        if not same_mesh or not adds:
            return r, out, "refused"
        return r, out, a.ref.combine(b.ref)
    raise ValueError(ev)


def make_root(case, workdir):
    seed = case["seed"]
    if case["root"] == "chk":
        cls = sys.modules["amr_kitchen.chk2plt.chk2plt"].chk2plt
        d = {"domain": [4, 4, 2], "levels": [[[[0, 0, 0], [1, 3, 1]], [[2, 0, 0], [3, 3, 1]]], [[[0, 0, 0], [3, 3, 3]], [[4, 2, 0], [7, 5, 1]]]],
             "nspecies": 2, "ghost": 2, "origin": [1.0, -2.0, 0.5], "dx0": [0.25, 0.5, 0.125], "seed": seed,
             "layouts": {"state": [{"files": [[1], [0]], "nums": [0, 1]}, {"files": [[1, 0]], "nums": [0]}]}}
        chk = os.path.join(workdir, "chk00005")
        dn, interior = chkmodel.write_checkpoint(d, chk)
        out = os.path.join(workdir, "root")
        with vpool.controlled():
            cls(chk, species=["H2", "O2"], pltdir=out)
        # the root contents are what the converter wrote (its agreement with the checkpoint is C17's subject)
        exp = ParsedPlot(out).to_refplot()
        return State(out, exp, ["chk2plt"], 0), None, True
    name, d, s = [r for r in roots(seed) if r[0] == case["root"]][0]
    # (the 3D two-level root is always named through `link/../root`, with a look-alike at the place that spelling names as text;
    # its sibling and the other roots take the form their descriptor hashes to)
    p, ref = build(d, workdir, "root", pathform="dotdot" if name == "3d2" else None)
    ps, refs = build(s, workdir, "sibling")
    return State(p, ref, ["root"], 0), State(ps, refs, ["sibling"], 0), False


def check_state(rec, sub, path, exp, floor_cmp=None):
    pp = oracle.parse_output(rec, sub, path)
    if pp is None:
        return False
    ok = oracle.compare_contents(rec, sub, pp, exp)
    ok = oracle.taste_accepts(rec, sub, path, coords=True) and ok
    return ok


def run_case(case, workdir):
    import amr_kitchen
    if case["root"] == "thermo":
        return run_thermo_case(case, workdir)
    rec = Rec()
    recipes = {}
    for nm, src in (("r1", RECIPE), ("r2", RECIPE2)):
        # two different recipe files with the SAME base name (module caches keyed by name must not mix them up)
        os.makedirs(os.path.join(workdir, "recipes_" + nm))
        recipes[nm] = os.path.join(workdir, "recipes_" + nm, "recipe.py")
        with open(recipes[nm], "w") as f:
            f.write(src)
    READERS.clear()
    root, sibling, from_chk = make_root(case, workdir)
    rec.exe([case["root"], "root"], nontrivial=False)
    if not check_state(rec, {"history": root.hist}, root.path, root.ref):
        return rec.result()
    seen = {canon(root)}
    frontier = collections.deque([(root, [])])
    k = 0
    first = True
    while frontier:
        st, ancestors = frontier.popleft()
        evs = events(st, sibling, ancestors)
        if first and len(evs) > 16:
            raise RuntimeError("harness: %d first events, the cases partition only 16" % len(evs))
        if first:
            # this case explores the subtree below ONE first event (the cases of a root partition its first events)
            evs = [evs[case["first"]]] if case["first"] < len(evs) else []
            first = False
        for ev in evs:
            k += 1
            label = [ev[0], ev[1] if ev[0] != "combine" else ev[1], ev[2] if ev[0] != "combine" else None]
            hist = st.hist + [label]
            sub = {"root": case["root"], "history": hist}
            (status, val), out, exp = apply_event(ev, st, workdir, k, recipes)
            rec.exe([case["root"], hist], nontrivial=st.depth + 1 >= 2)
            if isinstance(exp, str):          # refusal expected
                if status != "exc":
                    rec.fail("refusal_expected", sub, "combine accepted inputs it must refuse")
                elif os.path.exists(out):
                    rec.fail("refusal_wrote", sub, "output exists after refusal")
                shutil.rmtree(out, ignore_errors=True)
                continue
            if status == "exc":
                rec.fail("raised", sub, exc_text(val))
                continue
            ok = check_state(rec, sub, out, exp)
            if not ok:
                continue
            nst = State(out, exp, hist, st.depth + 1)
            key = canon(nst)
            if key in seen:
                rec.count("merged_states")
                shutil.rmtree(out, ignore_errors=True)
                continue
            seen.add(key)
            rec.outcome(key)
            if nst.depth < case["depth"]:
                frontier.append((nst, ancestors + [st]))
    rec.count("bfs_states", len(seen))
    rec.sample({"root": case["root"], "first_event": case["first"], "depth": case["depth"], "states": len(seen)})
    return rec.result()


SIGNATURES = {}
