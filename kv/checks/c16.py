"""C16 - mandoline's plotfile-format slice is a valid 2D plotfile of the plane data."""
import os
import shutil
import numpy as np
from .. import scope, vpool, oracle
from ..common import build, call, exc_text, poisoned
from ..refmodel import ParsedPlot, FormatError, same_value
from ..slicemodel import SliceModel, EPS
from ..runner import Rec, h64
from . import c07

PROPERTY = "C16"
LEVEL = "model_checking"
RULE = ("case = generated 3D plotfile (C07's meshes x axis rotations x geometry) x normal, and the file-splitting template "
        "(1..7 thin 80x80x2 boxes x 8 fields: written size crosses the 1 MB threshold, file count 1..4); execution = one "
        "Mandoline(...).slice(normal, pos, outfile, fformat='plotfile') at a lattice position x field list x limit, output "
        "parsed independently: ndims 2, time, in-plane geometry / dx / domain, per level the multiset of footprints of the "
        "boxes the plane meets, per box that level's own bracket samples interpolated onto the plane (exact where both exist), "
        "min/max = extrema of the written data, structural validity, taste (default + coordinates), no uninitialised memory; "
        "non-trivial = every in-domain slice")
ASSUMPTIONS = list(c07.ASSUMPTIONS)
MODS = ["amr_kitchen.mandoline.mandoline"]
CASE_TIMEOUT = 900


def bounds(tier):
    return {"positions": "every 2nd lattice point quick / all thorough (lattice = quarter of the finest cell)",
            "schedules": "every order of <= %d tasks of one deviating per-level pool call, lazy and eager, at the position meeting most boxes" % (4 if tier == "thorough" else 3),
            "field_lists": ["A C G", "G", "all", "G A (not header order)", "C G A (rotation)"], "limit": "None, 0..finest", "split_template_boxes": [1, 2, 3, 4, 5, 6, 7]}


def cases(tier, seed):
    out = []
    for c in c07.cases(tier, seed):
        if c.get("deep"):
            out.append({"desc": c["desc"], "normal": c["normal"], "dyadic": True, "kind": "deep", "deep": True, "w": 8})
            continue
        out.append({"desc": c["desc"], "normal": c["normal"], "dyadic": c["dyadic"], "kind": "mesh",
                    "stride": 1 if tier == "thorough" else 2, "w": c["w"], "sched_tasks": 4 if tier == "thorough" else 3})
    for nb in range(1, 8):
        d = {"ndims": 3, "domain": [80 * nb, 80, 2], "levels": [[[[80 * i, 0, 0], [80 * i + 79, 79, 1]] for i in range(nb)]],
             "fields": ["f%d" % i for i in range(8)], "payload": ["const2"] * 8, "seed": seed, "dx0": [0.25, 0.25, 0.25]}
        out.append({"desc": d, "normal": 2, "dyadic": True, "kind": "split", "w": 8 * nb})
    return out


def meets(ref, lv, n, m, sm):
    """boxes of level lv whose closed normal extent contains lattice position m"""
    s = sm.s(lv)
    return [b for b, (lo, hi) in enumerate(ref.boxes[lv]) if lo[n] * s <= m <= (hi[n] + 1) * s]


def check_output(rec, sub, out, ref, sm, m, L, want, n):
    try:
        pp = ParsedPlot(out)
    except (FormatError, OSError, ValueError, IndexError) as e:
        rec.fail("output_unparsable", sub, exc_text(e))
        return
    cx, cy = sm.cx, sm.cy
    probs = [p for p in pp.problems(check_minmax=True, coords=True) if "duplicate index boxes" not in p]
    if probs:
        rec.fail("output_invalid", sub, "; ".join(probs[:3]))
    if pp.ndims != 2:
        rec.fail("ndims", sub, "%r" % pp.ndims)
        return
    if pp.fields != want:
        rec.fail("fields", sub, "%r != %r" % (pp.fields, want))
    if not same_value(pp.time, ref.time):
        rec.fail("time", sub, "%r != %r" % (pp.time, ref.time))
    if pp.geo_lo != [ref.geo_lo[cx], ref.geo_lo[cy]] or pp.geo_hi != [ref.geo_hi[cx], ref.geo_hi[cy]]:
        rec.fail("geometry", sub, "%r %r" % (pp.geo_lo, pp.geo_hi))
    # levels 0..L; trailing levels that the plane does not meet may be left out
    met = [lv for lv in range(L + 1) if meets(ref, lv, n, m, sm)]
    if pp.finest > L or pp.finest < (max(met) if met else 0):
        rec.fail("levels", sub, "%d levels, the plane meets levels %s of the %d selected" % (pp.finest + 1, met, L + 1))
        return
    pos = sm.pos_of(m)
    for lv in range(pp.finest + 1):
        pl = pp.levels[lv]
        if pp.dx[lv] != [ref.dx[lv][cx], ref.dx[lv][cy]] or pp.domain[lv] != [ref.domain[lv][cx], ref.domain[lv][cy]]:
            rec.fail("level_geometry", sub, "level %d: dx %r domain %r" % (lv, pp.dx[lv], pp.domain[lv]))
        mb = meets(ref, lv, n, m, sm)
        exp_fp = sorted(((ref.boxes[lv][b][0][cx], ref.boxes[lv][b][0][cy]), (ref.boxes[lv][b][1][cx], ref.boxes[lv][b][1][cy])) for b in mb)
        if sorted(pl.index) != exp_fp:
            rec.fail("footprints", sub, "level %d: boxes %r, the plane meets footprints %r" % (lv, sorted(pl.index), exp_fp))
            continue
        # that level's own bracket samples
        v = sm.level_view(lv, lv, m)
        both = v["l_has"] & v["r_has"]
        exact = sm.lerp(v["l_val"], v["l_n"], v["r_val"], v["r_n"], pos)
        mag = np.abs(v["l_val"]) + np.abs(v["r_val"])
        finer_fp = []
        for fl_ in range(lv + 1, L + 1):
            f = 2 ** (fl_ - lv)
            for b in meets(ref, fl_, n, m, sm):
                lo, hi = ref.boxes[fl_][b]
                finer_fp.append(((lo[cx] // f, lo[cy] // f), (hi[cx] // f, hi[cy] // f)))
        for b, (lo2, hi2) in enumerate(pl.index):
            try:
                flo, fhi, nc, arr = pp.fab_at(lv, b)
            except (FormatError, OSError) as e:
                rec.fail("box_unreadable", sub, exc_text(e))
                continue
            sl = (slice(lo2[0], hi2[0] + 1), slice(lo2[1], hi2[1] + 1))
            covered = any(not (flo_[0] > hi2[0] or fhi_[0] < lo2[0] or flo_[1] > hi2[1] or fhi_[1] < lo2[1]) for flo_, fhi_ in finer_fp)
            dup = sorted(pl.index).count((lo2, hi2)) > 1
            for ci, nm in enumerate(want):
                fi = ref.fields.index(nm)
                got = arr[..., ci]
                pois = c07.has_poison_mask(got)
                kind = ref_kind(ref, nm)
                aliasing = covered or dup or (kind != "const" and v["kl"] != v["kr"])
                if pois.any():
                    rec.fail("uninitialised_memory", dict(sub, level=lv, box=[lo2, hi2], field=nm, explained_by_aliasing=aliasing),
                             "%d cells hold uninitialised memory" % int(pois.sum()))
                    continue
                ok = both[sl]
                with np.errstate(invalid="ignore"):
                    bad = ok & ~((got == exact[sl][..., fi]) | (np.abs(got - exact[sl][..., fi]) <= 64 * EPS * mag[sl][..., fi] + 1e-300))
                if bad.any():
                    i, j = np.argwhere(bad)[0]
                    rec.fail("values", dict(sub, level=lv, box=[lo2, hi2], field=nm, explained_by_aliasing=aliasing),
                             "level %d box %s field %s cell (%d,%d): %r, the level's bracket samples give %r"
                             % (lv, (lo2, hi2), nm, i, j, got[i, j], exact[sl][i, j, fi]))
                # one-sided: must be one of the level's own samples (or any stored sample pair around the plane)
                rest = ~ok
                if rest.any():
                    with np.errstate(invalid="ignore"):
                        member = (v["l_has"][sl] & (got == v["l_val"][sl][..., fi])) | (v["r_has"][sl] & (got == v["r_val"][sl][..., fi]))
                    bad2 = rest & ~member
                    if bad2.any():
                        rec.fail("one_sided_values", dict(sub, level=lv, box=[lo2, hi2], field=nm, explained_by_aliasing=True if aliasing else False),
                                 "cells with a single own sample hold neither sample")


def ref_kind(ref, nm):
    if nm == "A":
        return "affine"
    if nm in ("C", "H") or nm.startswith("f"):
        return "const"
    return "general"


def run_deep(case, workdir, rec):
    """seven levels, twelve fields (long FAB headers): closed-form oracle, see c07.run_deep"""
    from amr_kitchen.mandoline import Mandoline
    import math
    n = case["normal"]
    desc = case["desc"]
    path, ref = build(desc, workdir)
    dh = h64([desc, n, "plt"])
    cx, cy = [d_ for d_ in range(3) if d_ != n]
    a, b = 3.0, 2.0
    for pi, pos in enumerate(c07.deep_positions(ref, n)[::2]):
        for serial in (True, False):
            out = os.path.join(workdir, "deep%d_%d" % (pi, serial))
            with vpool.controlled():
                with poisoned(MODS, pi % 2):
                    st, val = call(lambda: Mandoline(path, fields=["A", "p7"], serial=serial, verbose=0).slice(normal=n, pos=pos, outfile=out, fformat="plotfile"))
            sub = {"normal": n, "pos": pos, "fields": ["A", "p7"], "serial": serial, "deep": True}
            rec.exe([dh, pi, serial])
            if st == "exc":
                rec.fail("raised", sub, exc_text(val))
                continue
            try:
                pp = ParsedPlot(out)
            except (FormatError, OSError, ValueError, IndexError) as e:
                rec.fail("output_unparsable", sub, exc_text(e))
                continue
            probs = [p_ for p_ in pp.problems(check_minmax=True, coords=True) if "duplicate index boxes" not in p_]
            if probs:
                rec.fail("output_invalid", sub, "; ".join(probs[:3]))
            if pp.ndims != 2 or pp.fields != ["A", "p7"] or not same_value(pp.time, ref.time):
                rec.fail("header", sub, "ndims %r fields %r time %r" % (pp.ndims, pp.fields, pp.time))
                continue
            for lv in range(pp.finest + 1):
                s_ = ref.dx[lv][n]
                meet = [bx for bx in ref.boxes[lv] if ref.geo_lo[n] + bx[0][n] * s_ <= pos <= ref.geo_lo[n] + (bx[1][n] + 1) * s_]
                exp_fp = sorted(((bx[0][cx], bx[0][cy]), (bx[1][cx], bx[1][cy])) for bx in meet)
                if sorted(pp.levels[lv].index) != exp_fp:
                    rec.fail("footprints", sub, "level %d: boxes %r, the plane meets footprints %r" % (lv, sorted(pp.levels[lv].index), exp_fp))
                    continue
                q = (pos - ref.geo_lo[n]) / s_ - 0.5
                kl, kr = math.floor(q), math.ceil(q)
                klo, khi = min(bx[0][n] for bx in ref.boxes[lv]), max(bx[1][n] for bx in ref.boxes[lv])
                if not (klo <= kl and kr <= khi):
                    continue          # one-sided at this level: the single own sample, not the affine value
                for bi in range(pp.levels[lv].nboxes):
                    arr = pp.fab_at(lv, bi)[3]
                    e = a + b * pos
                    if not (np.abs(arr[..., 0] - e) <= 64 * EPS * (abs(a) + abs(b * pos)) * 4).all():
                        rec.fail("values", dict(sub, level=lv), "level %d box %d: A is %r, a+b*pos = %r" % (lv, bi, arr[..., 0].ravel()[0], e))
            oracle.taste_accepts(rec, sub, out, coords=True)
            shutil.rmtree(out, ignore_errors=True)
    rec.sample({"desc": {k: v for k, v in desc.items() if k != "levels"}, "normal": n, "deep": True})


def run_case(case, workdir):
    from amr_kitchen.mandoline import Mandoline
    rec = Rec()
    if case.get("deep"):
        run_deep(case, workdir, rec)
        return rec.result()
    desc = case["desc"]
    n = case["normal"]
    path, ref = build(desc, workdir)
    sm = SliceModel(ref, n)
    dh = h64([desc, n])
    nlev = ref.nlevels
    N = sm.nunits()
    if case["kind"] == "split":
        positions = [2, 4, 5]
        lists = [["all"], ref.fields[:3]]
    else:
        # every lattice point also for the non-dyadic geometry (faces and centres are where the box bounds of the Header lie);
        # with stride 2 the cases alternate between the even and the odd points
        positions = list(range(0, N + 1))[(dh % 2 if case["stride"] > 1 else 0)::case["stride"]]
        lists = [["A", "C", "G", "H"], ["G"], ["all"], ["G", "A"], ["C", "G", "A"]]
    k = 0
    for m in positions:
        pos = sm.pos_of(m)
        combos = [(lists[0], lim) for lim in [None] + list(range(nlev))] + [(fl, None) for fl in lists[1:]]
        for fl, limit in combos:
            L = nlev - 1 if limit is None else limit
            k += 1
            # outputs are NOT fresh: two of three requests write to ONE explicit path that holds the result of the request
            # before; every third one leaves the name to the tool (the default name says little about the request, so several
            # requests of a case share it) - what is written must be the answer to THIS request
            by_default = (k % 3 == 0)
            out = None if by_default else os.path.join(workdir, "slice_out")
            holder = {}

            def one_slice():
                mo_ = Mandoline(path, fields=fl, limit_level=limit, serial=bool(k % 2), verbose=0)
                mo_.slice(normal=n, pos=pos, outfile=out, fformat="plotfile")
                holder["default"] = mo_.default_output_path() if by_default else None
            with vpool.controlled():
                with poisoned(MODS, k % 2):
                    st, val = call(one_slice)
            if by_default and st != "exc":
                out = holder["default"]
            empty_levels = [lv for lv in range(L + 1) if not meets(ref, lv, n, m, sm)]
            sub = {"normal": n, "m": m, "pos": pos, "fields": fl, "limit_level": limit, "levels_not_met": empty_levels,
                   "output": "default name" if by_default else "explicit path that holds the previous result"}
            rec.exe([dh, m, fl, limit])
            if st == "exc":
                rec.fail("raised", sub, exc_text(val))
                continue
            want = ref.fields if fl == ["all"] else fl
            check_output(rec, sub, out, ref, sm, m, L, want, n)
            oracle.taste_accepts(rec, sub, out, coords=True)
            if case["kind"] == "split":
                nfiles = len([f for f in os.listdir(os.path.join(out, "Level_0")) if f.startswith("Cell_D")])
                rec.outcome("files=%d" % nfiles)
    # the command line entry point (plotfile format) must write what the API writes
    if case["kind"] == "mesh":
        import amr_kitchen.mandoline.cli as mcli
        from ..common import run_cli
        from ..refmodel import tree_digest as _td
        # (the second run at position 0.0 exactly, where the domain starts there: an option value that is falsy)
        for m_, limit, serial in ((positions[len(positions) // 3], None, False),
                                  (0 if (ref.geo_lo[n] == 0.0 and positions[0] == 0) else positions[len(positions) // 3], 0, True)):
            o1, o2 = os.path.join(workdir, "cli_plt"), os.path.join(workdir, "api_plt")
            argv = ["mandoline", path, "-f", "plotfile", "-o", o1, "-n", str(n), "-p", repr(sm.pos_of(m_)), "-v", "G", "A"] \
                + (["-L", str(limit)] if limit is not None else []) + (["-s", "-V", "0"] if serial else [])       # default verbosity in parallel mode
            with vpool.controlled():
                with poisoned(MODS, 0):
                    st, val = run_cli(mcli.main, argv)
                    st2, val2 = call(lambda: Mandoline(path, fields=["G", "A"], limit_level=limit, serial=serial, verbose=0).slice(
                        normal=n, pos=sm.pos_of(m_), outfile=o2, fformat="plotfile"))
            rec.exe([dh, "cli", limit, serial])
            if st != "ok":
                rec.fail("cli_failed", {"argv": argv}, "%s %s" % (st, val))
            elif st2 == "ok" and _td(o1) != _td(o2):
                rec.fail("cli_differs_from_api", {"argv": argv}, "the mandoline command wrote another tree than Mandoline(...).slice()")
            shutil.rmtree(o1, ignore_errors=True)
            shutil.rmtree(o2, ignore_errors=True)
    # schedules: at the position where the plane meets most boxes, every completion order of the parallel per-level
    # pool calls (one deviating call) must still write a plotfile whose boxes hold their own plane data
    if case["kind"] == "mesh":
        from .. import explorer
        m_s = max(positions, key=lambda mm: (sum(len(meets(ref, lv, n, mm, sm)) for lv in range(nlev)), -mm))
        o = os.path.join(workdir, "sched")
        stats = {}

        def run(plan):
            shutil.rmtree(o, ignore_errors=True)
            with vpool.controlled(plan) as ctl:
                with poisoned(MODS, 0):
                    r = call(lambda: Mandoline(path, fields=["G", "A"], serial=False, verbose=0).slice(
                        normal=n, pos=sm.pos_of(m_s), outfile=o, fformat="plotfile"))
            return ctl, r
        for plan, ctl, (st, val) in explorer.explore(run, bound=1, max_tasks=case.get("sched_tasks", 3), stats=stats):
            sub = {"normal": n, "m": m_s, "pos": sm.pos_of(m_s), "fields": ["G", "A"], "schedule": explorer.plan_json(plan)}
            rec.exe([dh, "sched", sorted(explorer.plan_json(plan).items())], trans=len(ctl.calls))
            if st == "exc":
                rec.fail("raised", sub, exc_text(val))
                continue
            check_output(rec, sub, o, ref, sm, m_s, nlev - 1, ["G", "A"], n)
        shutil.rmtree(o, ignore_errors=True)
    # histories on ONE Mandoline object: several plotfile-format slices, each compared with a fresh object's output
    if case["kind"] == "mesh":
        from ..refmodel import tree_digest
        seqm = [positions[len(positions) // 2], positions[0], positions[len(positions) // 4], positions[-1], positions[len(positions) // 2]]
        for serial in (True, False):
            def fresh(m_):
                o = os.path.join(workdir, "fresh")
                shutil.rmtree(o, ignore_errors=True)
                with vpool.controlled():
                    with poisoned(MODS, 0):
                        r = call(lambda: Mandoline(path, fields=["A", "C", "G"], serial=serial, verbose=0).slice(normal=n, pos=sm.pos_of(m_), outfile=o, fformat="plotfile"))
                return r[0], (tree_digest(o) if r[0] == "ok" else None)
            with vpool.controlled():
                with poisoned(MODS, 0):
                    mo = Mandoline(path, fields=["A", "C", "G"], serial=serial, verbose=0)
                    for k2, m_ in enumerate(seqm):
                        o = os.path.join(workdir, "hist")
                        shutil.rmtree(o, ignore_errors=True)
                        st, val = call(lambda: mo.slice(normal=n, pos=sm.pos_of(m_), outfile=o, fformat="plotfile"))
                        got = (st, tree_digest(o) if st == "ok" else None)
                        rec.exe([dh, "history", serial, k2], trans=1)
                        exp_ = fresh(m_)
                        if got != exp_:
                            rec.fail("history_dependent", {"normal": n, "serial": serial, "call": k2, "positions": seqm},
                                     "slice %d on a re-used Mandoline object wrote another tree than a fresh object" % k2)
    rec.sample({"desc": {k_: v for k_, v in desc.items() if k_ != "levels"} if case["kind"] == "split" else desc,
                "normal": n, "positions": len(positions)})
    return rec.result()


def _sig_alias(case, fail):
    return fail["clause"] in ("values", "one_sided_values", "uninitialised_memory") and bool(fail["sub"].get("explained_by_aliasing"))


def _sig_empty(case, fail):
    return fail["clause"] == "raised" and bool(fail["sub"].get("levels_not_met")) and "range()" in fail["detail"]


SIGNATURES = {"per_level_arrays_aliased": _sig_alias, "level_not_met_by_plane_crashes": _sig_empty}
