"""C08 - mandoline 2D flattening equals the finest-level covering grid exactly."""
import numpy as np
from .. import scope, vpool, explorer
from ..common import build, call, exc_text, poisoned, has_poison
from ..refmodel import bits_equal
from ..runner import Rec, h64

PROPERTY = "C08"
LEVEL = "model_checking"
RULE = ("case = generated 2D plotfile (rectangular domains, non-square boxes, 1..3 levels, every layout of one deviating "
        "level, two origins x three cell shapes); execution = Mandoline(path, fields, limit, serial).slice(fformat='return') "
        "under one pool schedule and one poison pattern for np.empty, compared bit-wise with the reference covering grid "
        "(out[name][j,i]), the level map and the cell-centre coordinates; non-trivial = more than one level or box")
ASSUMPTIONS = ["np.empty in the mandoline module returns poison-filled memory (two patterns); results must be poison-free and equal",
               "pool.map tasks explored over all orders for <= 4 boxes per level (deviation bound 1)"]


def bounds(tier):
    return {"levels": [1, 2, 3], "field_lists": ["one", "reordered pair", "grid_level", "field+grid_level", "all", "str", "both rotations of three names", "rotation through grid_level"],
            "limit_level": "None, 0..finest", "modes": ["serial", "parallel x schedules"]}


def meshes(tier):
    ms = list(scope.named_meshes(2))
    for blocks in ((2, 3), (3, 1)):
        dom = [b * 2 for b in blocks]
        for t in scope.level0_tilings(blocks, 3):
            base = {"ndims": 2, "domain": dom, "levels": [[[list(lo), list(hi)] for lo, hi in t]]}
            ms.append(base)
            fines = scope.fine_box_sets(t, [2 * a for a in dom], 4, 2, maxsize=8)
            step = 1 if tier == "thorough" else max(1, len(fines) // 6)
            for fs in fines[::step]:
                m = dict(base)
                m["levels"] = base["levels"] + [[[list(lo), list(hi)] for lo, hi in fs]]
                ms.append(m)
    ms += scope.thin_meshes(2)
    # fine boxes aligned to ONE coarse cell (blocking factor 2 at the fine level): every single fine box inside the
    # refinement of a two-box level 0, i.e. coarse boxes covered except for a strip one cell wide on any side
    t = [((0, 0), (3, 1)), ((0, 2), (3, 5))]
    base = {"ndims": 2, "domain": [4, 6], "levels": [[[list(lo), list(hi)] for lo, hi in t]]}
    fines = scope.fine_box_sets(t, [8, 12], 2, 1 if tier == "quick" else 2, minsize=2, maxsize=10)
    for fs in fines[::1 if tier == "quick" else 7]:
        m = dict(base)
        m["levels"] = base["levels"] + [[[list(lo), list(hi)] for lo, hi in fs]]
        m["strip"] = True
        ms.append(m)
    return ms


def cases(tier, seed):
    out = []
    geos = list(scope.geometries(2)) + scope.extreme_geometries(2)
    for mi, mesh in enumerate(meshes(tier)):
        nlev = len(mesh["levels"])
        lays = [[None] * nlev]
        for lv in range(nlev):
            nb = len(mesh["levels"][lv])
            if 2 <= nb <= 3:
                L = scope.layouts(nb, 'idrev')
                for lay in (L[1:] if tier == "thorough" else [L[-1], L[len(L) // 2]]):
                    v = [None] * nlev
                    v[lv] = lay
                    lays.append(v)
        for gi, geo in enumerate(geos if (tier == "thorough" or mi < 6) else scope.rotate(geos, seed + mi)[:2]):
            for li, lay in enumerate(lays):
                if tier == "quick" and gi > 0 and li > 0:
                    continue
                if mesh.get("strip") and (gi > 0 or li > 0):
                    continue
                d = {k_: v_ for k_, v_ in mesh.items() if k_ != "strip"}
                d.update(geo)
                d.update({"fields": ["temp", "density", "Z"], "layout": lay, "payload": "coded" if (gi + li) % 2 == 0 else "hostile",
                          "seed": seed})
                out.append({"desc": d, "schedules": li == 0 and gi == 0, "w": nlev})
    # level directories named otherwise than Level_k
    d = dict(scope.named_meshes(2)[2])
    d.update(geos[2])
    d.update({"fields": ["temp", "density", "Z"], "layout": [None, scope.layouts(3, 'idrev')[-1], None], "payload": "coded", "seed": seed, "levelprefix": "Lev_"})
    out.append({"desc": d, "schedules": False, "w": 4})
    # cell sizes printed with 12 significant digits (a third of a unit: 0.333333333333, 0.166666666667, 0.0833333333333)
    for mi_ in (1, 2):
        d = dict(scope.named_meshes(2)[mi_])
        d.update({"origin": [0.0, -1.0], "dx0": [1.0 / 3.0, 1.0 / 3.0], "dx_digits": 12})
        d.update({"fields": ["temp", "density", "Z"], "layout": [scope.layouts(len(b), 'idrev')[-1] for b in d["levels"]], "payload": "coded", "seed": seed})
        out.append({"desc": d, "schedules": False, "w": 4, "coord_rtol": 1e-9})
    # field names that differ only by letter case
    d = dict(scope.named_meshes(2)[1])
    d.update(geos[1])
    d.update({"fields": list(scope.CASE_FIELDS), "layout": [None, scope.layouts(2, 'idrev')[-1]], "payload": "coded", "seed": seed})
    out.append({"desc": d, "schedules": False, "w": 4})
    return out


def field_lists(names):
    fl = [[names[0]], [names[2], names[0]], ["grid_level"], [names[1], "grid_level"], ["all"], names[1]]
    # rotations of three names (a permutation that is not its own inverse), one of them through grid_level
    fl += [[names[1], names[2], names[0]], [names[2], names[0], names[1]], [names[2], "grid_level", names[0], names[1]]]
    if len(names) >= 5:
        # the ends of a consecutive run around a permuted interior; a repeated field and a gap
        fl += [[names[1], names[3], names[2], names[4]], [names[0], names[0], names[2]]]
    return fl


def run_case(case, workdir):
    from amr_kitchen.mandoline import Mandoline
    rec = Rec()
    desc = case["desc"]
    path, ref = build(desc, workdir)
    dh = h64(desc)
    names = desc["fields"]
    MODS = ["amr_kitchen.mandoline.mandoline"]
    for limit in [None] + list(range(ref.nlevels)):
        L = ref.nlevels - 1 if limit is None else limit
        cov, lvl = ref.covering(limit=L, with_level=True)
        ex = ref.geo_lo[0] + (np.arange(ref.domain[L][0]) + 0.5) * ref.dx[L][0]
        ey = ref.geo_lo[1] + (np.arange(ref.domain[L][1]) + 0.5) * ref.dx[L][1]
        for fl in field_lists(names):
            for serial in (True, False):
                def run(plan, poison=0):
                    with vpool.controlled(plan) as ctl:
                        with poisoned(MODS, poison):
                            r = call(lambda: Mandoline(path, fields=fl, limit_level=limit, serial=serial,
                                                       verbose=0).slice(fformat="return"))
                    return ctl, r
                runs = []
                if case["schedules"] and not serial:
                    for plan, ctl, r in explorer.explore(lambda p: run(p, 0), bound=1):
                        runs.append((plan, 0, ctl, r))
                else:
                    ctl, r = run({}, 0)
                    runs.append(({}, 0, ctl, r))
                ctl, r = run({}, 1)
                runs.append(({}, 1, ctl, r))
                for plan, poison, ctl, (st, val) in runs:
                    sub = {"fields": fl, "limit_level": limit, "serial": serial, "plan": explorer.plan_json(plan),
                           "poison": poison}
                    rec.exe([dh, sub], nontrivial=(ref.nlevels > 1 or len(ref.boxes[0]) > 1),
                            trans=1 + sum(c["n"] for c in ctl.calls))
                    if st == "exc":
                        rec.fail("raised", sub, exc_text(val))
                        continue
                    want = names if fl == ["all"] else ([fl] if isinstance(fl, str) else [f for f in fl if f != "grid_level"])
                    grid = fl == ["all"] or (not isinstance(fl, str) and "grid_level" in fl)
                    for nm in want:
                        if nm not in val:
                            rec.fail("field_missing", sub, nm)
                            continue
                        e = cov[..., names.index(nm)].T
                        if not bits_equal(val[nm], e):
                            rec.fail("values", dict(sub, field=nm), "not the covering grid%s"
                                     % (" (uninitialised memory)" if has_poison(val[nm]) else ""))
                    if grid:
                        g = val.get("grid_level")
                        if g is None or np.shape(g) != lvl.T.shape or not np.array_equal(np.asarray(g), lvl.T):
                            rec.fail("grid_level", sub, "grid_level is not the level map")
                    if not (np.shape(val["x"]) == ex.shape and np.allclose(val["x"], ex, rtol=case.get("coord_rtol", 1e-12), atol=case.get("coord_rtol", 1e-12) * ref.dx[L][0])
                            and np.shape(val["y"]) == ey.shape and np.allclose(val["y"], ey, rtol=case.get("coord_rtol", 1e-12), atol=case.get("coord_rtol", 1e-12) * ref.dx[L][1])):
                        rec.fail("coordinates", sub, "x/y are not the cell centres of the grid")
                    rec.outcome(h64([dh, fl, limit, [zlib_crc(val.get(n)) for n in want]]))
    # the command line entry point, array format: the .npz must hold the covering grid
    import os
    import amr_kitchen.mandoline.cli as mcli
    from ..common import run_cli
    for limit, serial, fl in ((None, False, [names[2], names[0], "grid_level"]), (0, True, ["all"])):
        L = ref.nlevels - 1 if limit is None else limit
        cov, lvl = ref.covering(limit=L, with_level=True)
        out = os.path.join(workdir, "cli_out")
        argv = ["mandoline", path, "-f", "array", "-o", out, "-v"] + fl + (["-L", str(limit)] if limit is not None else []) + (["-s", "-V", "0"] if serial else [])
        with vpool.controlled():
            with poisoned(MODS, 0):
                st, val = run_cli(mcli.main, argv)
        rec.exe([dh, "cli", limit, serial], nontrivial=True)
        sub = {"argv": argv}
        if st != "ok":
            rec.fail("cli_failed", sub, "%s %s" % (st, val))
            continue
        z = np.load(out + ".npz")
        want = names if fl == ["all"] else [f for f in fl if f != "grid_level"]
        for nm in want:
            if nm not in z.files or not bits_equal(z[nm], cov[..., names.index(nm)].T):
                rec.fail("cli_values", dict(sub, field=nm), "the saved array is not the covering grid")
        if "grid_level" not in z.files or not np.array_equal(z["grid_level"], lvl.T):
            rec.fail("cli_grid_level", sub, "saved grid_level is not the level map")
        os.remove(out + ".npz")
    # histories on ONE Mandoline object: the second and third call must return what a fresh object returns
    for serial in (True, False):
        with vpool.controlled():
            with poisoned(MODS, 0):
                def hist():
                    m = Mandoline(path, fields=["all"], serial=serial, verbose=0)
                    res = []
                    for _ in range(3):
                        r = m.slice(fformat="return")
                        res.append({k_: (np.array(v_, copy=True) if isinstance(v_, np.ndarray) else v_) for k_, v_ in r.items()})
                        # a caller that post-processes what it was given IN PLACE (unit conversion, masking): the returned arrays
                        # are the caller's, later requests must not see what was done to them
                        for v_ in r.values():
                            if isinstance(v_, np.ndarray) and v_.flags.writeable:
                                v_ *= -1000.0
                    return res
                st, val = call(hist)
        rec.exe([dh, "history", serial], nontrivial=True, trans=3)
        sub = {"history": "three slice() calls on one Mandoline object", "serial": serial}
        if st == "exc":
            rec.fail("history_raised", sub, exc_text(val))
        else:
            cov, lvl = ref.covering(with_level=True)
            for k, r in enumerate(val):
                ex_ = ref.geo_lo[0] + (np.arange(ref.domain[-1][0]) + 0.5) * ref.dx[-1][0]
                ey_ = ref.geo_lo[1] + (np.arange(ref.domain[-1][1]) + 0.5) * ref.dx[-1][1]
                if not all(bits_equal(r[nm], cov[..., names.index(nm)].T) for nm in names) or not np.array_equal(np.asarray(r["grid_level"]), lvl.T) \
                        or not (np.allclose(r["x"], ex_, rtol=case.get("coord_rtol", 1e-12), atol=case.get("coord_rtol", 0) * ref.dx[-1][0]) and np.allclose(r["y"], ey_, rtol=case.get("coord_rtol", 1e-12), atol=case.get("coord_rtol", 0) * ref.dx[-1][1])):
                    rec.fail("history_dependent", dict(sub, call=k), "call %d on the same object differs from the covering grid / its coordinates "
                             "(the caller changed the arrays of the earlier calls in place)" % k)
    # history on ONE Mandoline object: a call that FAILS part-way (a binary file of the finest level is not there yet), then the
    # same call once the plotfile is complete - it must return the covering grid, as a fresh object does
    if ref.nlevels >= 2:
        from ..refmodel import ParsedPlot
        top = ref.nlevels - 1
        pl_ = ParsedPlot(path).levels[top]
        victim = os.path.join(pl_.dir, sorted(set(pl_.files))[-1])
        aside = os.path.join(workdir, "victim.aside")
        cov, lvl = ref.covering(with_level=True)
        for serial in (True, False):
            with vpool.controlled():
                with poisoned(MODS, 0):
                    def retry():
                        m = Mandoline(path, fields=["all"], serial=serial, verbose=0)
                        os.rename(victim, aside)
                        try:
                            first = call(lambda: m.slice(fformat="return"))
                        finally:
                            os.rename(aside, victim)
                        return first[0], m.slice(fformat="return")
                    st, val = call(retry)
            rec.exe([dh, "retry_after_failure", serial], nontrivial=True, trans=2)
            sub = {"history": "slice() failed part-way on this object (a finest-level binary file was missing), then the same call", "serial": serial}
            if st == "exc":
                rec.fail("history_raised", sub, exc_text(val))
            else:
                if val[0] != "exc":
                    rec.fail("failure_not_reported", sub, "the call with a missing binary file returned normally")
                r = val[1]
                if not all(bits_equal(r[nm], cov[..., names.index(nm)].T) for nm in names) or not np.array_equal(np.asarray(r["grid_level"]), lvl.T):
                    rec.fail("history_dependent", sub, "the call after the failed one differs from the covering grid")
    rec.sample({"desc": desc, "ops": "slice(fformat='return') x field lists x limits x serial/parallel"})
    return rec.result()


def zlib_crc(a):
    import zlib
    return zlib.crc32(np.ascontiguousarray(a).tobytes()) if a is not None else None


SIGNATURES = {}
