"""C13 - tools never touch their inputs and report failures instead of returning."""
import os
import io
import sys
import shutil
import re
import numpy as np
from .. import scope, vpool, audit, faults, chkmodel
from ..common import build, exc_text
from ..runner import Rec, h64

PATHFORMS = False      # (this check spells its input paths itself)
PROPERTY = "C13"
LEVEL = "fault_enumeration"
RULE = ("case = one tool entry point (API or main() with sys.argv) x invocation form (explicit / default output / output = the "
        "existing directory that holds the inputs) x path form "
        "(relative, ./x, trailing slash, absolute, absolute + slash; cwd = parent of the input or elsewhere) on a generated "
        "2-level input; executions = the plain run, the run on each deliberately broken input (missing binary, missing level "
        "header, unknown field) and one faulted run per counted write point (open-for-write, write, mkdir, rmtree, rename, "
        "remove) with ENOSPC injected there; oracle = audit of every write-class event (none inside an input tree, all under "
        "the requested output or the default location beside the input / in cwd), input snapshots (content, mode, mtime) "
        "unchanged, and a failing run ends in an exception or non-zero exit; non-trivial = faulted or broken-input runs")
ASSUMPTIONS = ["in-process controlled pool, so worker writes are intercepted and worker exceptions are re-raised with the real pool's semantics",
               "one injected fault per run", "'output path = input path' is left out: the statement contradicts itself there",
               "mandoline's image format dies in matplotlib 3.11 (plt.cm.get_cmap) - an exception, exercised only up to that point"]
CASE_TIMEOUT = 900

RECIPE = '''def recipe(field_indexes, box_array):
    """ratio"""
    return box_array[..., field_indexes["temp"]] / box_array[..., field_indexes["density"]]
'''
RECIPE_BAD = '''def recipe(field_indexes, box_array):
    """ratio"""
    return box_array[..., field_indexes["no_such_field"]]
'''

PATH_FORMS = [("parent", "rel"), ("parent", "dot"), ("parent", "slash"), ("parent", "abs"), ("parent", "abs_slash"),
              ("else", "rel"), ("else", "rel_slash"), ("else", "abs"), ("else", "symlink"), ("parent", "slashdot"), ("else", "slashdot")]


def bounds(tier):
    return {"path_forms": PATH_FORMS, "faults": "every counted write point of every successful run "
            "(quick: path forms rel / slash; thorough: all forms)", "broken_inputs": ["missing_binary", "missing_level_header", "unknown_field", "truncated_binary", "cut_at_fab_boundary"]}


def mesh3():
    return {"ndims": 3, "domain": [4, 4, 4],
            "levels": [[[[0, 0, 0], [1, 3, 3]], [[2, 0, 0], [3, 3, 3]]], [[[2, 2, 2], [5, 5, 5]], [[0, 0, 0], [1, 1, 3]]]],
            "fields": ["temp", "density", "Z"], "payload": "pos",
            "layout": [{"files": [[0], [1]], "nums": [0, 1]}, {"files": [[1, 0]], "nums": [2]}]}


def mesh2():
    return {"ndims": 2, "domain": [4, 6], "levels": [[[[0, 0], [3, 1]], [[0, 2], [3, 5]]], [[[2, 2], [5, 5]], [[0, 8], [3, 11]]]],
            "fields": ["temp", "density", "Z"], "payload": "pos"}


def chkdesc():
    return {"domain": [4, 4, 4], "levels": [[[[0, 0, 0], [3, 3, 3]]], [[[2, 2, 2], [5, 5, 5]], [[0, 0, 0], [1, 1, 3]]]],
            "nspecies": 2, "layouts": {"state": [None, {"files": [[1], [0]], "nums": [0, 1]}]}}


# --------------------------------------------------------------------------------------------
# tool drivers: fn(P, P2, out, opt) where P/P2 are the path strings handed to the tool
# --------------------------------------------------------------------------------------------
def _argv(argv, fn):
    old = sys.argv
    sys.argv = argv
    try:
        return fn()
    finally:
        sys.argv = old


def t_colander_api(P, P2, out, opt):
    from amr_kitchen.colander import Colander
    Colander(plotfile=P, limit_level=opt.get("limit"), output=out, variables=opt.get("vars", ["density", "temp"])).strain()


def t_colander_cli(P, P2, out, opt):
    import amr_kitchen.colander.cli as m
    _argv(["colander", P, "-v"] + opt.get("vars", ["density", "temp"]) + ["-o", out]
          + (["-l", str(opt["limit"])] if opt.get("limit") is not None else []), m.main)


def t_combine_api(P, P2, out, opt):
    from amr_kitchen import PlotfileCooker
    fn = sys.modules["amr_kitchen.combine.combine"].combine
    fn(PlotfileCooker(P), PlotfileCooker(P2), pltout=out, vars1=opt.get("vars1"), vars2=None)


def t_combine_cli(P, P2, out, opt):
    import amr_kitchen.combine.cli as m
    a = ["combine", "-p1", P, "-p2", P2] + (["-o", out] if out else []) + (["-v1", opt["vars1"]] if opt.get("vars1") else [])
    _argv(a, m.main)


def t_chef_api(P, P2, out, opt):
    from amr_kitchen.chef import Chef
    Chef(P, recipe=opt["recipe"], outfile=out, serial=opt.get("serial", False), kept_fields=opt.get("kept")).cook()


def t_chef_hrr(P, P2, out, opt):
    from amr_kitchen.chef import Chef
    from . import c11
    Chef(P, recipe=opt.get("builtin", "HRR"), outfile=out, mech=c11.MECH, pressure=1.0, serial=opt.get("serial", False),
         kept_fields=opt.get("kept")).cook()


def t_chef_cli(P, P2, out, opt):
    import amr_kitchen.chef.cli as m
    _argv(["chef", P, "-r", opt["recipe"]] + (["-o", out] if out else []), m.main)


def t_mandoline_api(P, P2, out, opt):
    from amr_kitchen.mandoline import Mandoline
    Mandoline(P, fields=opt.get("fields", ["temp", "density"]), serial=opt.get("serial", False), verbose=0).slice(
        normal=opt.get("normal", 0), pos=opt.get("pos"), outfile=out, fformat=opt["fformat"])


def t_mandoline_cli(P, P2, out, opt):
    import amr_kitchen.mandoline.cli as m
    a = ["mandoline", P, "-f", opt["fformat"], "-v"] + opt.get("fields", ["temp", "density"]) + ["-V", "0"] + (["-o", out] if out else [])
    _argv(a, m.main)


def t_whip_cli(P, P2, out, opt):
    import amr_kitchen.whip.cli as m
    _argv(["whip", "-v", opt.get("field", "temp"), "-y"] + (["-o", out] if out else []) + [P], m.main)


def t_pestle_api(P, P2, out, opt):
    from amr_kitchen import PlotfileCooker
    from amr_kitchen.pestle import volume_integral
    volume_integral(PlotfileCooker(P, ghost=True), opt.get("field", "temp"))


def t_pestle_cli(P, P2, out, opt):
    import amr_kitchen.pestle.cli as m
    _argv(["pestle", "--variable", opt.get("field", "temp"), P], m.main)


def t_taste_api(P, P2, out, opt):
    from amr_kitchen.taste import Taster
    Taster(P, boxes_coordinates=True, verbose=0)


def t_taste_cli(P, P2, out, opt):
    import amr_kitchen.taste.cli as m
    _argv(["taste", P, "-v", "0"], m.main)


def t_menu_cli(P, P2, out, opt):
    import amr_kitchen.menu.cli as m
    _argv(["menu", P] + opt.get("flags", []), m.main)


def t_minuterie(P, P2, out, opt):
    import amr_kitchen.minuterie as m
    _argv(["minuterie", P], m.main)


def t_marinate(P, P2, out, opt):
    import amr_kitchen.marinate as m
    _argv(["marinate", P], m.main)


def t_chk2plt_api(P, P2, out, opt):
    cls = sys.modules["amr_kitchen.chk2plt.chk2plt"].chk2plt
    cls(P, species=["H2", "O2"], pltdir=out)


def t_chk2plt_ref(P, P2, out, opt):
    """species names taken from a reference plotfile (an INPUT) that stands beside the checkpoint"""
    cls = sys.modules["amr_kitchen.chk2plt.chk2plt"].chk2plt
    cls(P, target_plotfile=P2, pltdir=out)


def t_mandoline_object(P, P2, out, opt):
    """ONE Mandoline object: a slice to an explicit output elsewhere first, then the slice under check (explicit or default
    output) - an output path belongs to the call that gives it"""
    from amr_kitchen.mandoline import Mandoline
    m = Mandoline(P, fields=opt.get("fields", ["temp", "density"]), serial=opt.get("serial", False), verbose=0)
    first = os.path.join(os.path.dirname(os.path.dirname(os.path.realpath(P.rstrip("/")))), "elsewhere", "first_out")
    m.slice(normal=0, pos=None, outfile=first, fformat=opt["fformat"])
    for p_ in (first, first + ".npz"):
        if os.path.isdir(p_):
            shutil.rmtree(p_)
        elif os.path.exists(p_):
            os.remove(p_)
    m.slice(normal=opt.get("normal", 0), pos=None, outfile=out, fformat=opt["fformat"])


def t_chk2plt_cli(P, P2, out, opt):
    import amr_kitchen.chk2plt.cli as m
    _argv(["chk2plt", "-c", P, "-s", "1", "2"] + (["-o", out] if out else []), m.main)


# name -> (driver, input kind, needs second input, output modes, option variants, broken-input kinds that MUST fail)
TOOLS = {
    "colander_api": (t_colander_api, "plt3", False, ["explicit"], [{}, {"vars": ["all"], "limit": 0}, {"vars": ["temp", "density", "Z"]}],
                     ["missing_binary", "missing_level_header"]),
    "colander_cli": (t_colander_cli, "plt2", False, ["explicit"], [{}, {"vars": ["all"], "limit": 0}], ["missing_binary", "missing_level_header"]),
    "combine_api": (t_combine_api, "plt3", True, ["explicit", "default"], [{}, {"vars1": "temp"}],
                    ["missing_binary", "missing_level_header", "unknown_field"]),
    "combine_cli": (t_combine_cli, "plt3", True, ["explicit", "default"], [{}], ["missing_binary", "missing_level_header"]),
    "chef_api": (t_chef_api, "plt3", False, ["explicit", "default"], [{"recipe": "@RECIPE"}, {"recipe": "@RECIPE", "serial": True, "kept": "Z"}],
                 ["missing_binary", "missing_level_header", "unknown_field"]),
    "chef_builtin": (t_chef_hrr, "thermo", False, ["explicit", "default"],
                     [{"builtin": "HRR"}, {"builtin": "ENT", "serial": True, "kept": "temp"}], ["missing_binary", "missing_level_header"]),
    "chef_cli": (t_chef_cli, "plt3", False, ["explicit", "default"], [{"recipe": "@RECIPE"}], ["missing_binary", "missing_level_header"]),
    "mandoline_api": (t_mandoline_api, "plt3", False, ["explicit", "default"],
                      [{"fformat": "array"}, {"fformat": "plotfile"}, {"fformat": "plotfile", "fields": ["temp"], "serial": True, "normal": 2},
                       {"fformat": "image"}],
                      ["missing_binary", "missing_level_header", "unknown_field"]),
    "mandoline_api_2d": (t_mandoline_api, "plt2", False, ["explicit", "default"], [{"fformat": "array"}],
                         ["missing_binary", "missing_level_header", "unknown_field"]),
    "mandoline_cli": (t_mandoline_cli, "plt3", False, ["explicit", "default"], [{"fformat": "array"}, {"fformat": "plotfile"}],
                      ["missing_binary", "missing_level_header"]),
    "whip_cli": (t_whip_cli, "plt3", False, ["explicit", "default"], [{}], ["missing_binary", "missing_level_header", "unknown_field"]),
    "pestle_api": (t_pestle_api, "plt3", False, ["none"], [{}], ["missing_binary", "missing_level_header", "unknown_field"]),
    "pestle_cli": (t_pestle_cli, "plt3", False, ["none"], [{}], ["missing_binary", "missing_level_header", "unknown_field"]),
    "taste_api": (t_taste_api, "plt3", False, ["none"], [{}], ["missing_binary", "missing_level_header"]),
    "taste_cli": (t_taste_cli, "plt2", False, ["none"], [{}], ["missing_binary", "missing_level_header"]),
    "menu_cli": (t_menu_cli, "plt3", False, ["none"], [{}, {"flags": ["-m"]}], []),
    "menu_cli_minmax": (t_menu_cli, "plt2", False, ["none"], [{"flags": ["-m", "-f"]}], ["missing_level_header"]),
    "minuterie": (t_minuterie, "plt2", False, ["none"], [{}], []),
    "marinate": (t_marinate, "plt3", False, ["default"], [{}], ["missing_level_header"]),
    "chk2plt_api": (t_chk2plt_api, "chk", False, ["explicit", "default"], [{}], ["missing_binary", "missing_level_header"]),
    "chk2plt_cli": (t_chk2plt_cli, "chk", False, ["explicit", "default"], [{}], ["missing_binary", "missing_level_header"]),
    "chk2plt_ref": (t_chk2plt_ref, "chkref", True, ["explicit", "default"], [{}], ["missing_binary", "missing_level_header"]),
    "mandoline_object": (t_mandoline_object, "plt3", False, ["explicit", "default"], [{"fformat": "array"}, {"fformat": "plotfile", "serial": True}],
                         ["missing_binary", "missing_level_header"]),
}


# tools that never open a binary file / tools that read every box of level 0 whatever their options
NO_DATA = {"menu_cli", "menu_cli_minmax", "minuterie", "marinate"}
READS_ALL = {"chk2plt_ref", "colander_api", "colander_cli", "combine_api", "combine_cli", "chef_api", "chef_cli", "chef_builtin", "pestle_api", "pestle_cli",
             "whip_cli", "taste_api", "taste_cli", "chk2plt_api", "chk2plt_cli", "mandoline_api_2d"}
NO_OUTPUT = set(n for n, t in TOOLS.items() if t[3] == ["none"])


def cases(tier, seed):
    out = []
    for name, (fn, kind, two, outmodes, opts, broken) in sorted(TOOLS.items()):
        for om in outmodes:
            for oi, opt in enumerate(opts):
                for pf in PATH_FORMS:
                    do_faults = (tier == "thorough") or pf in (("parent", "rel"), ("parent", "slash")) \
                        or (pf == ("else", "abs") and oi == 0)
                    if name == "chef_builtin":          # Cantera runs are slow: fewer forms, faults in the thorough tier only
                        if pf not in (("parent", "rel"), ("parent", "slash"), ("else", "abs")):
                            continue
                        do_faults = tier == "thorough" and pf == ("parent", "rel")
                    do_broken = pf == ("parent", "rel") and oi == 0
                    out.append({"tool": name, "outmode": om, "opt": oi, "pathform": list(pf), "faults": do_faults,
                                "broken": do_broken, "seed": seed, "w": 30 if do_faults and om != "none" else 1})
    # requested output = an EXISTING directory that contains the inputs (e.g. `-o .` next to the plotfile): whatever the
    # tool does with it (write into it, refuse), nothing inside an input may be created, changed or deleted
    for name, (fn, kind, two, outmodes, opts, broken) in sorted(TOOLS.items()):
        if "explicit" not in outmodes or name == "chef_builtin":
            continue
        for oi, opt in enumerate(opts):
            for pf in (("parent", "rel"), ("parent", "slash"), ("else", "rel"), ("else", "abs"), ("else", "symlink")):
                out.append({"tool": name, "outmode": "parent", "opt": oi, "pathform": list(pf), "faults": False, "broken": False,
                            "seed": seed, "w": 1})
    # requested output = the input plotfile itself: the only way to satisfy the statement is to refuse; a run that ends
    # normally must at least have left the input untouched
    if os.environ.get("KV_C13_SELF"):
        for name, (fn, kind, two, outmodes, opts, broken) in sorted(TOOLS.items()):
            if "explicit" not in outmodes or name == "chef_builtin":
                continue
            for oi, opt in enumerate(opts):
                for pf in (("parent", "rel"), ("parent", "slash"), ("else", "abs")):
                    out.append({"tool": name, "outmode": "self", "opt": oi, "pathform": list(pf), "faults": False, "broken": False,
                                "seed": seed, "w": 1})
    # default outputs for directory names with dots (a common stem before the dot, a dotted copy)
    for name, (fn, kind, two, outmodes, opts, broken) in sorted(TOOLS.items()):
        if "default" not in outmodes or name == "chef_builtin":
            continue
        for pf in (("parent", "rel"), ("else", "abs")):
            for nm_ in (1, 2, 3, 4):
                out.append({"tool": name, "outmode": "default", "opt": 0, "pathform": list(pf), "faults": False, "broken": False,
                            "seed": seed, "names": nm_, "w": 1})
    # histories: the same tool twice into the SAME output path with different options (an output that already exists,
    # written by an earlier run): every ordered pair of option variants
    for name, (fn, kind, two, outmodes, opts, broken) in sorted(TOOLS.items()):
        if "explicit" not in outmodes or name == "chef_builtin" or len(opts) < 2:
            continue
        for o1 in range(len(opts)):
            for o2 in range(len(opts)):
                if o1 != o2:
                    out.append({"tool": name, "outmode": "twice", "opt": o2, "first_opt": o1, "pathform": ["parent", "rel"], "faults": False,
                                "broken": False, "seed": seed, "w": 2})
    return out


def path_form(abs_path, cwd, form):
    if form == "symlink":
        # the input named through a symbolic link that lives in the working directory (outside the directory of the input)
        link = os.path.join(cwd, "lnk_" + os.path.basename(abs_path))
        if not os.path.islink(link):
            os.symlink(abs_path, link)
        return os.path.relpath(link, cwd)
    rel = os.path.relpath(abs_path, cwd)
    if form == "slashdot":
        return rel + "/."
    return {"rel": rel, "dot": "./" + rel, "slash": rel + "/", "abs": abs_path, "abs_slash": abs_path + "/",
            "rel_slash": rel + "/"}[form]


class Env(object):
    """fresh input trees for one execution"""

    NAMES = [("plt00010", "plt00020", "chk00005"), ("plt_t0.25", "plt_t0.50", "chk00005.old"), ("run_plt00010", "x.plt", "flame_chk00012"),
             ("plt00010_ck", "plt00020_ck", "chk00005_ck"),
             ("plt00100", "plt00100", "chk00100")]       # (a cooked plotfile cooked again: the default suffix is already there)

    def __init__(self, workdir, kind, seed, tag, names=0):
        n1, n2, nchk = self.NAMES[names]
        self.root = os.path.join(workdir, "e_" + tag)
        os.makedirs(self.root)
        self.indir = os.path.join(self.root, "in")
        os.makedirs(self.indir)
        os.makedirs(os.path.join(self.root, "elsewhere"))
        os.makedirs(os.path.join(self.root, "recipes"))
        self.inputs = []
        if kind in ("chk", "chkref"):
            self.p1 = os.path.join(self.indir, nchk)
            chkmodel.write_checkpoint(dict(chkdesc(), seed=seed), self.p1)
            self.inputs = [self.p1]
            self.p2 = None
            if kind == "chkref":
                # a reference plotfile of an earlier step beside a checkpoint whose step number has seven digits: the documented
                # default output of chk0000010 is plt0000010 - plt00010 is an input
                self.p1 = os.path.join(self.indir, "chk0000010")
                os.rename(os.path.join(self.indir, nchk), self.p1)
                d = mesh3()
                d["seed"] = seed + 2
                d["fields"] = ["Y(H2)", "Y(O2)", "temp"]
                self.p2, _ = build(d, self.indir, "plt00010", prehistory=False, pathform="plain")
                self.inputs = [self.p1, self.p2]
        elif kind == "thermo":
            from . import c11
            from ..refmodel import write_plotfile
            d = c11.thermo_desc(seed, 1)
            self.p1 = os.path.join(self.indir, n1)
            write_plotfile(d, self.p1, ref=c11.thermo_ref(d))
            self.p2 = None
            self.inputs = [self.p1]
        else:
            d = mesh3() if kind == "plt3" else mesh2()
            d["seed"] = seed
            self.p1, _ = build(d, self.indir, n1)
            d2 = dict(d)
            d2["fields"] = ["Zvar", "density", "Y(H2)"]
            d2["seed"] = seed + 1
            if n2 == n1:
                # the same step of two runs: equal directory names, in sibling directories
                os.makedirs(os.path.join(self.root, "in2"))
                self.p2, _ = build(d2, os.path.join(self.root, "in2"), n2)
            else:
                self.p2, _ = build(d2, self.indir, n2)
            self.inputs = [self.p1, self.p2]
        for nm, txt in (("r.py", RECIPE), ("rbad.py", RECIPE_BAD)):
            with open(os.path.join(self.root, "recipes", nm), "w") as f:
                f.write(txt)

    def remove(self):
        shutil.rmtree(self.root, ignore_errors=True)


def execute(case, env, fail_at=None, breakage=None, opt_index=None, fail_read_at=None):
    """one execution of the tool; returns dict(outcome, events, points, snapshot_ok, fired)"""
    name = case["tool"]
    fn, kind, two, outmodes, opts, broken = TOOLS[name]
    opt = dict(opts[case["opt"] if opt_index is None else opt_index])
    cwd_kind, form = case["pathform"]
    cwd = env.indir if cwd_kind == "parent" else os.path.join(env.root, "elsewhere")
    if opt.get("recipe") == "@RECIPE":
        opt["recipe"] = os.path.join(env.root, "recipes", "rbad.py" if breakage == "unknown_field" else "r.py")
    if breakage == "unknown_field":
        if name.startswith("combine"):
            opt["vars1"] = "no_such_field"
        elif name.startswith("mandoline"):
            opt["fields"] = ["no_such_field"]
        elif name.startswith(("whip", "pestle")):
            opt["field"] = "no_such_field"
    if breakage == "missing_binary":
        if kind in ("chk", "chkref"):
            os.remove(os.path.join(env.p1, "Level_1", "state_D_00001"))
        else:
            lv = "Level_1"
            lv = lv if kind != "thermo" else "Level_0"
            victim = sorted(f for f in os.listdir(os.path.join(env.p1, lv)) if f.startswith("Cell_D"))[0]
            os.remove(os.path.join(env.p1, lv, victim))
    if breakage == "truncated_binary":
        # an interrupted copy: the first binary file of level 0 ends 20 bytes into the data of its first FAB (inside the
        # FIRST field, so that whatever field a tool reads from that box is incomplete)
        lvd = os.path.join(env.p1, "Level_0")
        victim = os.path.join(lvd, sorted(f for f in os.listdir(lvd) if f.startswith("state_D" if kind in ("chk", "chkref") else "Cell_D"))[0])
        with open(victim, "r+b") as f_:
            hdr = f_.readline()
            f_.truncate(len(hdr) + 20)
    if breakage == "cut_at_fab_boundary":
        # the interrupted copy ended exactly between two FABs: the first binary file of level 1 that holds several boxes
        # keeps its first FAB only
        pref = "state_D" if kind in ("chk", "chkref") else "Cell_D"
        env.breakage_applied = False
        for lvn_ in ("Level_1", "Level_0"):
            lvd = os.path.join(env.p1, lvn_)
            for fn_ in (sorted(f for f in os.listdir(lvd) if f.startswith(pref)) if os.path.isdir(lvd) else []):
                with open(os.path.join(lvd, fn_), "rb") as f_:
                    data_ = f_.read()
                second = data_.find(b"FAB ", 4)
                if second > 0:
                    with open(os.path.join(lvd, fn_), "r+b") as f_:
                        f_.truncate(second)
                    env.breakage_applied = True
                    break
            if env.breakage_applied:
                break
    if breakage == "missing_level_header":
        os.remove(os.path.join(env.p1, "Level_0", "state_H" if kind in ("chk", "chkref") else "Cell_H"))
    P = path_form(env.p1, cwd, form)
    P2 = path_form(env.p2, cwd, form) if two else None
    if case["outmode"] in ("explicit", "twice"):
        out = "out_x" if form in ("rel", "dot", "slash", "rel_slash", "symlink", "slashdot") else os.path.join(env.root, "outabs", "out_x")
        if os.path.isabs(out):
            os.makedirs(os.path.dirname(out), exist_ok=True)
        out_abs = os.path.realpath(os.path.join(cwd, out))
    elif case["outmode"] == "self":
        out = P
        out_abs = os.path.realpath(env.p1)
    elif case["outmode"] == "parent":
        out = path_form(env.indir, cwd, form if form != "symlink" else "rel")
        out_abs = os.path.realpath(env.indir)
    else:
        out = None
        out_abs = None
    snaps = [audit.snapshot(p) for p in env.inputs]
    os.chdir(cwd)
    oldout = sys.stdout
    sys.stdout = io.StringIO()
    outcome = None
    try:
        with vpool.controlled():
            with audit.recording() as ev:
                with faults.injecting(fail_at, read_roots=env.inputs, fail_read_at=fail_read_at) as st:
                    try:
                        fn(P, P2, out, opt)
                        outcome = ("ok", "")
                    except SystemExit as e:
                        code = e.code
                        outcome = ("ok", "exit 0") if code in (None, 0) else ("fail", "exit %r" % (code,))
                    except Exception as e:
                        outcome = ("fail", exc_text(e))
    finally:
        printed = sys.stdout.getvalue()
        sys.stdout = oldout
        os.chdir(env.root)
    snap_ok = [audit.snapshot(p) for p in env.inputs] == snaps
    # allowed roots (absolute path prefixes)
    if out_abs is not None:
        allowed = [out_abs]
    else:
        allowed = default_prefixes(name, env, os.path.realpath(cwd), opt)
    lib = os.path.realpath(os.environ.get("MPLCONFIGDIR", "/nonexistent"))
    ev = [(e, p) for e, p in ev if not audit.inside(p, lib)]
    if name == "mandoline_object":
        # (the object's FIRST slice went, as requested, to <root>/elsewhere/first_out: not the call under check)
        first_ = os.path.join(os.path.realpath(env.root), "elsewhere", "first_out")
        ev = [(e, p) for e, p in ev if not p.startswith(first_)]
        # ... which the driver removed before the second call: if it is there again, the SECOND call wrote it
        if outcome and outcome[0] == "ok":
            for p_ in (first_, first_ + ".npz"):
                if os.path.lexists(p_):
                    ev.append(("open_w", p_))
    if name not in NO_OUTPUT:
        digest = output_digest(allowed)
    else:
        # tools without an output path answer on standard output (elapsed times and the scratch root removed)
        import hashlib
        txt = re.sub(r"\(\s*[0-9.eE+-]+\s*s?\s*\)", "()", printed.replace(os.path.realpath(env.root), "<root>").replace(env.root, "<root>"))
        digest = (hashlib.sha1(txt.encode()).hexdigest(), 0)
    return {"outcome": outcome, "events": list(ev), "points": st.n, "rpoints": st.rn, "fired": st.fired, "snap_ok": snap_ok,
            "allowed": allowed, "out_abs": out_abs, "digest": digest,
            "roots": [os.path.realpath(os.path.dirname(env.p1)), os.path.realpath(cwd)]}


def output_digest(prefixes):
    """content digest of everything written under the allowed prefixes (npz compared by arrays: zip stores timestamps)"""
    import hashlib
    h = hashlib.sha1()
    files = []
    for pre in prefixes:
        d = os.path.dirname(pre)
        if not os.path.isdir(d):
            continue
        for dp, dn, fn in os.walk(d):
            for f in fn:
                p = os.path.join(dp, f)
                if p.startswith(pre):
                    files.append(p)
    for p in sorted(set(files)):
        h.update(os.path.basename(p).encode())
        try:
            if p.endswith(".npz"):
                z = np.load(p, allow_pickle=True)
                for k in sorted(z.files):
                    h.update(k.encode())
                    h.update(np.ascontiguousarray(z[k]).tobytes())
            else:
                with open(p, "rb") as f:
                    h.update(f.read())
        except Exception as e:
            h.update(("unreadable %s" % type(e).__name__).encode())
    return h.hexdigest(), len(set(files))


def judge(rec, case, sub, env, r, must_fail, good_digest=None):
    if must_fail and r["outcome"][0] == "ok":
        # a fault absorbed by a retry that produced the complete output is not a failing run
        if good_digest is None or r["digest"] != good_digest:
            rec.fail("failure_not_reported", sub, "run ended normally (%s)%s" % (r["outcome"][1] or "returned",
                     "" if good_digest is None else " but its output differs from the unfaulted run"))
        else:
            rec.count("fault_absorbed_output_complete")
    if not r["snap_ok"]:
        rec.fail("input_modified", sub, "snapshot of an input tree changed")
    for e, p in r["events"]:
        ins = [i for i in env.inputs if audit.inside(p, i)]
        if ins:
            rec.fail("wrote_into_input", sub, "%s %s" % (e, os.path.relpath(p, env.root)))
            break
    if r["out_abs"] is not None:
        for e, p in r["events"]:
            if any(audit.inside(p, i) for i in env.inputs):
                continue
            if not any(p.startswith(a) for a in r["allowed"]):      # 'out_x', 'out_x.npz', 'out_x/...'
                rec.fail("wrote_outside_output", sub, "%s %s (requested output %s)" % (e, p, r["allowed"]))
                break
    else:
        # default output: ONE file or ONE directory tree beside the input (or in the working directory) - whatever
        # its name - never several entries strewn over that directory, never anything elsewhere
        tops = set()
        for e, p in r["events"]:
            if any(audit.inside(p, i) for i in env.inputs):
                continue
            roots = [a for a in r["roots"] if audit.inside(p, a) and p != a]
            if not roots:
                if p in r["roots"]:
                    continue        # makedirs(exist_ok) probing the directory itself
                rec.fail("wrote_outside_output", sub, "%s %s is neither beside the input nor in the working directory" % (e, p))
                break
            root = max(roots, key=len)
            tops.add(os.path.join(root, os.path.relpath(p, root).split(os.sep)[0]))
        else:
            if len(tops) > 1:
                rec.fail("wrote_outside_output", sub, "default output is not one file or tree: %s" % sorted(os.path.relpath(t, env.root) for t in tops)[:4])


def default_prefixes(name, env, cwd, opt):
    """documented default output locations: beside the input (or in cwd), never inside it"""
    p1 = os.path.realpath(env.p1)
    d1 = os.path.dirname(p1)
    b1 = os.path.basename(p1)
    if name.startswith("chef"):
        return [p1 + "_ck"]
    if name.startswith("combine"):
        return [os.path.join(cwd, b1 + os.path.basename(os.path.realpath(env.p2)))]
    if name.startswith("mandoline"):
        return [os.path.join(d1, "S")]
    if name == "marinate":
        return [p1 + ".pkl"]
    if name.startswith("chk2plt"):
        return [os.path.join(d1, b1.replace("chk", "plt"))]
    if name.startswith("whip"):
        return [os.path.join(cwd, "%s_ugrid_" % opt.get("field", "temp"))]
    return []


def run_case(case, workdir):
    rec = Rec()
    name = case["tool"]
    fn, kind, two, outmodes, opts, broken = TOOLS[name]
    seed = case["seed"]
    key = [name, case["outmode"], case["opt"], case["pathform"], case.get("names", 0)]
    env = Env(workdir, kind, seed, "plain", case.get("names", 0))
    if case["outmode"] == "twice":
        r1 = execute(case, env, opt_index=case["first_opt"])
        rec.exe(key + ["first", case["first_opt"]], nontrivial=False, trans=1 + r1["points"])
        judge(rec, case, {"tool": name, "outmode": "twice", "opt": opts[case["first_opt"]], "pathform": case["pathform"], "run": "first of two"},
              env, r1, must_fail=False)
    r0 = execute(case, env)
    sub = {"tool": name, "outmode": case["outmode"], "opt": opts[case["opt"]], "pathform": case["pathform"], "run": "plain"}
    if case["outmode"] == "twice":
        sub["history"] = "same output path written before with options %r" % (opts[case["first_opt"]],)
        key = key + [case["first_opt"]]
    rec.exe(key + ["plain"], nontrivial=case["outmode"] == "twice", trans=1 + r0["points"])
    rec.count("plain_ok" if r0["outcome"][0] == "ok" else "plain_failed")
    rec.outcome("%s:%s" % (name, r0["outcome"][0]))
    judge(rec, case, sub, env, r0, must_fail=False)
    env.remove()
    if case["broken"]:
        for bk in ("missing_binary", "missing_level_header", "unknown_field", "truncated_binary", "cut_at_fab_boundary"):
            if bk == "unknown_field" and bk not in broken:
                continue
            if bk in ("truncated_binary", "cut_at_fab_boundary") and name in NO_DATA:
                continue
            env = Env(workdir, kind, seed, bk, case.get("names", 0))
            r = execute(case, env, breakage=bk)
            sub2 = dict(sub, run=bk)
            rec.exe(key + [bk], nontrivial=True)
            judge(rec, case, sub2, env, r, must_fail=(bk in broken) or (bk == "truncated_binary" and name in READS_ALL)
                  or (bk == "cut_at_fab_boundary" and name in READS_ALL and getattr(env, "breakage_applied", False)))
            env.remove()
    if case["faults"] and r0["outcome"][0] == "ok" and r0["points"] > 0:
        for k in range(1, r0["points"] + 1):
            env = Env(workdir, kind, seed, "f%d" % k, case.get("names", 0))
            r = execute(case, env, fail_at=k)
            sub2 = dict(sub, run="fault", fail_at=k, point=r["fired"])
            rec.exe(key + ["fault", k], nontrivial=True)
            if r["fired"] is None:
                raise RuntimeError("harness: fault point %d of %d never reached on replay (nondeterministic write sequence)"
                                   % (k, r0["points"]))
            judge(rec, case, sub2, env, r, must_fail=True, good_digest=r0["digest"])
            env.remove()
    # unreadable input: EACCES at every individual open-for-reading of a file inside an input tree
    if case["faults"] and r0["outcome"][0] == "ok" and r0["rpoints"] > 0:
        for k in range(1, r0["rpoints"] + 1):
            env = Env(workdir, kind, seed, "r%d" % k, case.get("names", 0))
            r = execute(case, env, fail_read_at=k)
            sub2 = dict(sub, run="read_fault", fail_read_at=k, point=r["fired"])
            rec.exe(key + ["read_fault", k], nontrivial=True)
            if r["fired"] is None:
                raise RuntimeError("harness: read point %d of %d never reached on replay (nondeterministic read sequence)"
                                   % (k, r0["rpoints"]))
            judge(rec, case, sub2, env, r, must_fail=True, good_digest=r0["digest"])
            env.remove()
    rec.sample({"tool": name, "outmode": case["outmode"], "pathform": case["pathform"], "write_points": r0["points"], "read_points": r0["rpoints"],
                "plain_outcome": list(r0["outcome"])})
    return rec.result()


SIGNATURES = {}
