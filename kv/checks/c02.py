"""C02 - opening a plotfile exposes exactly the metadata its headers state."""
import os
import sys
import shutil
import numpy as np
from .. import scope, vpool
from ..common import build, call, exc_text
from ..runner import Rec, h64
from ..refmodel import same_value
from . import c01

PATHFORMS = False      # (this check spells its input paths itself)
PROPERTY = "C02"
LEVEL = "model_checking"
RULE = ("case = generated plotfile (ndims x 1..4 levels x mesh x origin x cell shape x time x field multiset incl. "
        "repeated names x refinement-ratio line length x layout); execution = one PlotfileCooker(path, limit_level, "
        "header_only, maxmins) whose public attributes are compared field by field with the descriptor; "
        "non-trivial = the open must succeed (limit <= finest)")
ASSUMPTIONS = ["micro-scale geometry (dx <= 1e-8) is outside the alphabet",
               "floats compared bit-equal to float(text written); grids to 1e-12 relative"]


def bounds(tier):
    return {"levels": [1, 2, 3, 4], "limit_level": "None, 0..finest, finest+1", "options": "header_only x maxmins",
            "ratio_line_extra": [0, 1, 2], "fields": "1..5 incl. repeated names"}


def chain_mesh(nd, nlev):
    """nlev levels, each refining a box in the interior of the previous one."""
    dom = [4] * nd
    levels = [[[[0] * nd, [3] * nd]]]
    lo, hi = [0] * nd, [3] * nd
    for lv in range(1, nlev):
        lo = [2 * a + 2 for a in lo]
        hi = [l + 3 for l in lo]
        levels.append([[list(lo), list(hi)]])
        if lv == 1:   # a second box at level 1
            levels[-1].append([[0] * nd, [1] * nd])
    return {"ndims": nd, "domain": dom, "levels": levels}


FIELDSETS = [["temp"], ["a", "b", "a", "a_2"], ["density", "density", "density"], ["Y(H2)", "Y(O2)", "temp", "Z", "Zvar"],
             ["x", "grid_level", "all"], ["\u03c9_z", "\u0394\u03c1", "Y(H\u2082O)", "mass fraction", "T", "t"],
             ["q%03d" % i for i in range(120)], ["temp", "temp ", " density", "\tmag_vort", "mass fraction", "  "]]


def cases(tier, seed):
    out = []
    times = list(scope.TIMES) + ([float("inf")] if tier == "thorough" else [])
    for nd in (2, 3):
        meshes = list(scope.named_meshes(nd)) + [chain_mesh(nd, 4), chain_mesh(nd, 2), chain_mesh(nd, 12)] + scope.thin_meshes(nd) + scope.far_index_meshes(nd)
        if tier == "thorough":
            blocks = (2, 2) if nd == 2 else (2, 1, 2)
            for t in scope.level0_tilings(blocks, 4):
                meshes.append({"ndims": nd, "domain": [b * 2 for b in blocks],
                               "levels": [[[list(lo), list(hi)] for lo, hi in t]]})
        geos = list(scope.geometries(nd)) + scope.extreme_geometries(nd)
        k = seed
        for mi, mesh in enumerate(meshes):
            nlev = len(mesh["levels"])
            lays = [[None] * nlev]
            for lv in range(nlev):
                nb = len(mesh["levels"][lv])
                if nb >= 2 and nb <= 3:
                    L = scope.layouts(nb, 'idrev', base=1)
                    for lay in (L[1:] if tier == "thorough" else [L[-1], L[len(L) // 2]]):
                        v = [None] * nlev
                        v[lv] = lay
                        lays.append(v)
            for gi, geo in enumerate(geos):
                for ti, tm in enumerate(times):
                    # geometry x time fully crossed; fields / ratio / layout rotate (their code paths are independent)
                    combos = [(fi, ex, li) for fi in range(len(FIELDSETS)) for ex in (0, 1, 2) for li in range(len(lays))]
                    if tier == "quick":
                        k += 1
                        sel = [combos[(k * 7 + j * 11) % len(combos)] for j in range(2)]
                        # plus the star: each factor varied alone on the first geometry/time
                        if gi == 0 and ti == 0:
                            sel = combos
                    else:
                        sel = combos if (gi == 0 or ti == 0) else [combos[(k + j) % len(combos)] for j in range(6)]
                        k += 1
                    for fi, ex, li in sel:
                        d = dict(mesh)
                        d.update(geo)
                        d.update({"time": tm, "fields": FIELDSETS[fi], "extra_ratio": ex, "layout": lays[li],
                                  "payload": "hostile" if (fi + li) % 3 == 0 else "coded", "seed": seed})
                        out.append({"desc": d})
    # index spaces that do not start at cell 0 (AMReX allows any domain box): a positive and a negative first cell
    for nd in (2, 3):
        m = scope.named_meshes(nd)[2]
        for sh in ([8, 16, 0][:nd], [-2, -2, -2][:nd]):
            d = dict(m)
            d.update(list(scope.geometries(nd))[1])
            d.update({"time": 0.5, "fields": ["temp", "density"], "extra_ratio": 0, "layout": [scope.layouts(len(b), 'idrev')[-1] for b in m["levels"]],
                      "payload": "coded", "seed": seed, "index_shift": sh})
            out.append({"desc": d})
    # four of the plotfiles (2D / 3D, fewest and most levels) are also opened by interpreters started with -O and -OO
    marks = {}
    for i, c in enumerate(out):
        key = (c["desc"]["ndims"], len(c["desc"]["levels"]))
        marks.setdefault(key, i)
    nds = sorted(set(k[0] for k in marks))
    for nd in nds:
        lvls = sorted(k[1] for k in marks if k[0] == nd)
        for nl in (lvls[0], lvls[-1]):
            out[marks[(nd, nl)]]["interpreter_modes"] = True
            out[marks[(nd, nl)]]["w"] = 40
    return out


def arr_eq(a, b):
    a = np.asarray(a, dtype=float)
    b = np.asarray(b, dtype=float)
    return a.shape == b.shape and all(same_value(float(x), float(y)) for x, y in zip(a.ravel(), b.ravel()))


def check_open(rec, sub, pck, ref, desc, path, limit, header_only, maxmins, parsed):
    nd = ref.ndims
    nlev = ref.nlevels
    L = nlev - 1 if limit is None else limit

    def bad(what, detail=""):
        rec.fail(what, sub, detail)
    # field names in header order; a repeated header name must stay recognisable (unique key that starts with the
    # header name) - the exact suffix the reader appends is not part of the statement
    hdr = desc["fields"]
    keys = list(pck.fields.keys())
    okn = len(keys) == len(hdr) and list(pck.fields.values()) == list(range(len(hdr))) and len(set(keys)) == len(keys)
    if okn:
        for i, (k, h) in enumerate(zip(keys, hdr)):
            collides = any(o != h and h.startswith(o) for o in hdr)     # could clash with a key generated for a repeated name
            if not k.startswith(h) or (hdr.count(h) == 1 and not collides and k != h):
                okn = False
    if not okn:
        bad("fields", "fields=%r for header names %r" % (dict(pck.fields), hdr))
    names = keys if okn else c01.reader_names(hdr)
    if pck.ndims != nd:
        bad("ndims")
    if not same_value(pck.time, ref.time):
        bad("time", "%r != %r" % (pck.time, ref.time))
    if pck.limit_level != L:
        bad("limit_level", "%r != %r" % (pck.limit_level, L))
    if hasattr(pck, "max_level") and pck.max_level != nlev - 1:
        bad("max_level", "%r != %r" % (pck.max_level, nlev - 1))
    if not arr_eq(pck.geo_low, ref.geo_lo) or not arr_eq(pck.geo_high, ref.geo_hi):
        bad("geometry", "%r %r" % (pck.geo_low, pck.geo_high))
    for lv in range(L + 1):
        if not arr_eq(pck.dx[lv], ref.dx[lv]):
            bad("dx", "level %d: %r != %r" % (lv, pck.dx[lv], ref.dx[lv]))
        if list(np.asarray(pck.grid_sizes[lv]).tolist()) != list(ref.domain[lv]):
            bad("grid_sizes", "level %d: %r != %r" % (lv, pck.grid_sizes[lv], ref.domain[lv]))
    if len(pck.boxes) != L + 1:
        bad("levels_exposed", "len(boxes)=%d, limit+1=%d" % (len(pck.boxes), L + 1))
    if len(pck.grids) != L + 1:
        bad("levels_exposed", "len(grids)=%d" % len(pck.grids))
    for lv in range(min(L + 1, len(pck.boxes))):
        nb = len(ref.boxes[lv])
        if len(pck.boxes[lv]) != nb:
            bad("boxes", "level %d count" % lv)
            continue
        for b in range(nb):
            exp = [[float("%.17g" % v) for v in pair] for pair in ref.phys_box(lv, b)]
            if not arr_eq(pck.boxes[lv][b], exp):
                bad("boxes", "level %d box %d: %r != %r" % (lv, b, pck.boxes[lv][b], exp))
        for d in range(nd):
            exp = ref.geo_lo[d] + (np.arange(ref.domain[lv][d]) + 0.5) * ref.dx[lv][d]
            g = np.asarray(pck.grids[lv][d])
            if g.shape != exp.shape or not np.allclose(g, exp, rtol=1e-12, atol=1e-12 * abs(ref.dx[lv][d])):
                bad("grids", "level %d dim %d" % (lv, d))
    if header_only:
        return
    if len(pck.cells) != L + 1:
        bad("levels_exposed", "len(cells)=%d" % len(pck.cells))
    for lv in range(min(L + 1, len(pck.cells))):
        c = pck.cells[lv]
        pl = parsed.levels[lv]
        nb = len(ref.boxes[lv])
        if len(c["indexes"]) != nb or len(c["files"]) != nb or len(c["offsets"]) != nb:
            bad("cells", "level %d counts" % lv)
            continue
        sh_ = [s_ * 2 ** lv for s_ in (desc.get("index_shift") or [0] * nd)]
        for b in range(nb):
            lo, hi = ref.boxes[lv][b]
            lo, hi = tuple(a + s_ for a, s_ in zip(lo, sh_)), tuple(a + s_ for a, s_ in zip(hi, sh_))
            if tuple(int(v) for v in c["indexes"][b][0]) != lo or tuple(int(v) for v in c["indexes"][b][1]) != hi:
                bad("indexes", "level %d box %d: %r" % (lv, b, c["indexes"][b]))
            expf = os.path.join(pl.dir, pl.files[b])
            if os.path.realpath(c["files"][b]) != os.path.realpath(expf):
                bad("files", "level %d box %d: %r != %r" % (lv, b, c["files"][b], expf))
            if int(c["offsets"][b]) != pl.offsets[b]:
                bad("offsets", "level %d box %d: %r != %r" % (lv, b, c["offsets"][b], pl.offsets[b]))
        if maxmins:
            if "mins" not in c or "maxs" not in c:
                bad("maxmins_missing", "level %d" % lv)
                continue
            if list(c["mins"].keys()) != names or list(c["maxs"].keys()) != names:
                bad("maxmins_keys", "level %d: %r" % (lv, list(c["mins"].keys())))
                continue
            for fi, nm in enumerate(names):
                emin = [float(pl.mins[b][fi]) for b in range(nb)]
                emax = [float(pl.maxs[b][fi]) for b in range(nb)]
                if not arr_eq(c["mins"][nm], emin):
                    bad("mins", "level %d field %s: %r != %r" % (lv, nm, c["mins"][nm], emin))
                if not arr_eq(c["maxs"][nm], emax):
                    bad("maxs", "level %d field %s: %r != %r" % (lv, nm, c["maxs"][nm], emax))


def run_case(case, workdir):
    from amr_kitchen import PlotfileCooker
    from ..refmodel import ParsedPlot
    rec = Rec()
    desc = case["desc"]
    path, ref = build(desc, workdir)
    parsed = ParsedPlot(path)
    dh = h64(desc)
    nlev = ref.nlevels
    # header-only copy without any level directory
    hpath = os.path.join(workdir, "hdronly")
    os.makedirs(hpath)
    shutil.copy(os.path.join(path, "Header"), os.path.join(hpath, "Header"))
    first_keys = None
    for limit in [None] + list(range(nlev + 1)):
        for header_only in (False, True):
            for maxmins in (False, True):
                sub = {"limit_level": limit, "header_only": header_only, "maxmins": maxmins}
                p = hpath if header_only else path
                with vpool.controlled():
                    st, val = call(lambda: PlotfileCooker(p, limit_level=limit, header_only=header_only, maxmins=maxmins))
                ok_expected = limit is None or limit <= nlev - 1
                rec.exe([dh, sub], nontrivial=ok_expected)
                if not ok_expected:
                    if st != "exc":
                        rec.fail("limit_above_finest_accepted", sub, "limit_level=%r accepted on %d levels" % (limit, nlev))
                    continue
                if st == "exc":
                    rec.fail("open_raised", sub, exc_text(val))
                    continue
                keys = list(val.fields.keys())
                if first_keys is None:
                    first_keys = keys
                elif keys != first_keys:
                    rec.fail("fields_differ_between_openings", sub, "this opening exposes %r, an earlier opening of the same plotfile %r" % (keys, first_keys))
                try:
                    check_open(rec, sub, val, ref, desc, p, limit, header_only, maxmins, parsed)
                except Exception as e:
                    rec.fail("attribute_access", sub, exc_text(e))
    # history on ONE reader: the caller uses the reader's public read-only helpers (every one that needs no other plotfile:
    # field_index, unique_box_shapes, box_points, the per-level generators, map_bfile_offsets, comparison with a second reader,
    # a few selections) - what the reader exposes afterwards is still what the headers state
    with vpool.controlled():
        st, val = call(lambda: PlotfileCooker(path, maxmins=True))
    if st != "exc":
        def use(pck_):
            other = PlotfileCooker(path, maxmins=True)
            for nm_ in list(pck_.fields):
                pck_.field_index(nm_)
            pck_.unique_box_shapes()
            for lv_ in range(nlev):
                for b_ in range(len(ref.boxes[lv_])):
                    for _rep in (0, 1):
                        try:
                            pck_.box_points(lv_, b_)
                        except Exception:
                            pass
                for gen in (pck_.bybinfile, pck_.bybinfile_indexed, pck_.bybox):
                    try:
                        list(gen(lv_))
                    except Exception:
                        pass
                try:
                    list(pck_.byboxcompared(other, lv_))
                except Exception:
                    pass
                try:
                    pck_.map_bfile_offsets(lv_)
                except Exception:
                    pass
                try:
                    a_ = pck_[:][lv_][0]
                    a_[...] = 0.0
                except Exception:
                    pass
            pck_ == other
        with vpool.controlled():
            call(lambda: use(val))
        sub = {"history": "public helpers of the reader used first", "limit_level": None, "header_only": False, "maxmins": True}
        rec.exe([dh, "after_helpers"], nontrivial=True)
        try:
            check_open(rec, sub, val, ref, desc, path, None, False, True, parsed)
        except Exception as e:
            rec.fail("attribute_access", sub, exc_text(e))
    # the same plotfile named otherwise (trailing slash, ./x, relative to the working directory, via a symbolic link) and
    # the level limit given as a NumPy integer
    import numpy as np
    os.chdir(workdir)
    link = os.path.join(workdir, "link_to_plt")
    os.symlink(path, link)
    rel = os.path.relpath(path, workdir)
    for form, p, limit in (("trailing_slash", path + "/", None), ("dot_relative", "./" + rel, nlev - 1), ("relative", rel, 0), ("relative_slash", rel + "/", None),
                           ("symlink", link, None), ("numpy_limit", path, np.int64(nlev - 1)), ("numpy_limit_0", path, np.int32(0))):
        sub = {"path_form": form, "limit_level": int(limit) if limit is not None else None, "header_only": False, "maxmins": True}
        with vpool.controlled():
            st, val = call(lambda: PlotfileCooker(p, limit_level=limit, maxmins=True))
        rec.exe([dh, "form", form], nontrivial=True)
        if st == "exc":
            rec.fail("open_raised", sub, exc_text(val))
            continue
        if list(val.fields.keys()) != first_keys:
            rec.fail("fields_differ_between_openings", sub, "%r" % list(val.fields.keys()))
        try:
            check_open(rec, sub, val, ref, desc, p, None if limit is None else int(limit), False, True, parsed)
        except Exception as e:
            rec.fail("attribute_access", sub, exc_text(e))
    # 'link/../name' where link is a symbolic link to a directory elsewhere: the operating system resolves it to the plotfile
    # next to the link's TARGET; the plotfile of the same name next to the link itself (this case's own) is a decoy
    os.makedirs(os.path.join(workdir, "deep", "sub"))
    os.symlink(os.path.join("deep", "sub"), os.path.join(workdir, "lnk"))
    d2 = dict(desc, time=-2.75, seed=desc.get("seed", 0) + 11)
    path2, ref2 = build(d2, os.path.join(workdir, "deep"), os.path.basename(path))
    parsed2 = ParsedPlot(path2)
    for form, p in (("symlink_dotdot_relative", os.path.join("lnk", "..", os.path.basename(path))),
                    ("symlink_dotdot_absolute", os.path.join(workdir, "lnk", "..", os.path.basename(path)))):
        sub = {"path_form": form, "limit_level": None, "header_only": False, "maxmins": True}
        with vpool.controlled():
            st, val = call(lambda: PlotfileCooker(p, maxmins=True))
        rec.exe([dh, "form", form], nontrivial=True)
        if st == "exc":
            rec.fail("open_raised", sub, exc_text(val))
            continue
        try:
            check_open(rec, sub, val, ref2, d2, p, None, False, True, parsed2)
        except Exception as e:
            rec.fail("attribute_access", sub, exc_text(e))
    # environment: another interpreter mode - `python -O` / `-OO` (PYTHONOPTIMIZE), where assert statements are not executed.
    # The plotfile is opened in a subprocess started that way and the pickled reader is judged here like any other opening.
    if case.get("interpreter_modes"):
        import subprocess
        import pickle
        script = ("import sys, pickle\nfrom amr_kitchen import PlotfileCooker\n"
                  "p = PlotfileCooker(sys.argv[1], maxmins=True)\npickle.dump(p, open(sys.argv[2], 'wb'))\n")
        for flag in ("-O", "-OO"):
            dump = os.path.join(workdir, "opened%s.pkl" % flag)
            sub = {"interpreter": "python " + flag, "limit_level": None, "header_only": False, "maxmins": True}
            r = subprocess.run([sys.executable, flag, "-c", script, path, dump], capture_output=True, text=True, timeout=600,
                               env=dict(os.environ, OMP_NUM_THREADS="1"))
            rec.exe([dh, "interpreter", flag], nontrivial=True)
            if r.returncode != 0 or not os.path.exists(dump):
                rec.fail("open_raised", sub, (r.stderr.strip().split("\n") or ["exit %d" % r.returncode])[-1][:300])
                continue
            try:
                with open(dump, "rb") as f_:
                    val = pickle.load(f_)
                check_open(rec, sub, val, ref, desc, path, None, False, True, parsed)
            except Exception as e:
                rec.fail("attribute_access", sub, exc_text(e))
    rec.sample({"desc": desc, "opens": "limit in None,0..finest+1 x header_only x maxmins"})
    return rec.result()


def _sig_shifted(case, fail):
    """the reader takes the number of cells of a level from the UPPER domain index alone (hi + 1): with a domain box that does
    not start at 0 the grid sizes and the cell-centre grids are wrong, and a negative upper index makes the opening fail"""
    sh = (case.get("desc") or {}).get("index_shift")
    return bool(sh) and any(sh) and fail["clause"] in ("grid_sizes", "grids", "open_raised")


SIGNATURES = {"index_space_not_starting_at_zero": _sig_shifted}
