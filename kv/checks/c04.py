"""C04 - taste rejects missing, truncated, shifted or inconsistent plotfile data.
(C20 re-uses this enumeration with its own oracle, see c20.py)"""
import os
import sys
import re
import shutil
import itertools
import numpy as np
from .. import scope, vpool, mutate
from ..common import build, call, exc_text
from ..runner import Rec, h64

PROPERTY = "C04"
LEVEL = "fault_enumeration"
RULE = ("case = base plotfile (2D/3D, 2 levels, 2+3 boxes, layout classes single-file / multi-file / non-monotone) + a "
        "chunk of mutants; mutant = one corruption operator at one site, or an unordered pair at distinct sites; execution = "
        "Taster(mutant, limit, [coords]) in failing and in non-failing mode, judged by ref_bad(mutant) => rejected (raises / "
        "evaluates false without raising); non-trivial = mutant is ref_bad (carries a demand), distinct by "
        "(base, mutation list, limit, coords)")
ASSUMPTIONS = ["ref_bad implements the statement's conditions with its leniency: a FAB header is readable if its last four "
               "tokens parse; the third tuple of index lines is ignored",
               "pairs: quick = pairs whose two sites touch the same binary file; thorough = all pairs",
               "controlled in-process pool, identity schedule"]
CASE_TIMEOUT = 900
CHUNK = 60


def bounds(tier):
    return {"bases": "6 + 4 with extreme geometry (coordinate validation only) + a 7-level, 12-field plotfile with long FAB headers (single corruptions)", "singles": "every operator x every site", "pairs": "same-file pairs" if tier == "quick" else "all pairs",
            "limit_level": [None, 0], "coords": [False, True]}


def bases(seed=0):
    out = []
    lays = {
        "single": [None, None],
        "multi": [{"files": [[0], [1]], "nums": [1, 0]}, {"files": [[0, 2], [1]], "nums": [0, 1]}],
        "nonmono": [{"files": [[1, 0]], "nums": [0]}, {"files": [[2, 0, 1]], "nums": [3]}],
    }
    for nd in (2, 3):
        if nd == 2:
            mesh = {"ndims": 2, "domain": [4, 6], "levels": [[[[0, 0], [3, 1]], [[0, 2], [3, 5]]],
                                                             [[[2, 2], [5, 5]], [[0, 8], [3, 11]], [[6, 0], [7, 3]]]]}
        else:
            mesh = {"ndims": 3, "domain": [4, 4, 2], "levels": [[[[0, 0, 0], [1, 3, 1]], [[2, 0, 0], [3, 3, 1]]],
                                                                [[[2, 2, 0], [5, 5, 3]], [[0, 6, 0], [1, 7, 1]], [[6, 0, 2], [7, 1, 3]]]]}
        geos = scope.rotate(list(scope.geometries(nd)), seed)
        for li, (lname, lay) in enumerate(sorted(lays.items())):
            d = dict(mesh)
            d.update(geos[li % len(geos)])
            d.update({"fields": ["temp", "density"], "layout": lay, "payload": "coded", "seed": seed, "layout_class": lname})
            out.append(d)
        # huge coordinates / tiny cells (compared with the default tolerances of np.isclose)
        for gi, geo in enumerate(scope.extreme_geometries(nd)):
            d = dict(mesh)
            d.update(geo)
            d.update({"fields": ["temp", "density"], "layout": lays["multi" if (gi + nd) % 2 else "nonmono"], "payload": "coded",
                      "seed": seed, "layout_class": "extreme_geometry_%d" % gi, "coords_only": True})
            out.append(d)
    # six-digit box indices: coordinate validation only (a tolerance relative to the INDEX would hide whole-cell shifts there)
    d = dict(scope.far_index_meshes(3)[0])
    d.update(list(scope.geometries(3))[(seed + 1) % 6])
    d.update({"fields": ["temp", "density"], "layout": [lays["multi"][0] if False else None, None], "payload": "coded", "seed": seed,
              "layout_class": "far_index", "coords_only": True})
    out.append(d)
    # 131 boxes in ONE binary file (more than any chunk size a validator might use, and no multiple of it): edits of the
    # FabOnDisk lines of the first, middle and last boxes only
    d = {"ndims": 3, "domain": [262, 2, 2], "levels": [[[[2 * i, 0, 0], [2 * i + 1, 1, 1]] for i in range(131)]]}
    d.update(list(scope.geometries(3))[seed % 6])
    d.update({"fields": ["temp", "density"], "payload": "coded", "seed": seed, "layout_class": "many_boxes_one_file", "singles_only": True,
              "layout": [{"files": [list(range(130, -1, -1))], "nums": [0]}], "mut_filter": {"ops": ["fod"], "boxes": [0, 1, 2, 64, 65, 128, 129, 130]}})
    out.append(d)
    # seven levels towards the far corner, twelve fields: FAB header lines longer than 100 bytes; single corruptions only
    d = dict(scope.deep_corner_mesh())
    d.update(list(scope.geometries(3))[seed % 6])
    d.update({"fields": list(scope.DEEP_FIELDS), "payload": "coded", "seed": seed, "layout_class": "deep", "singles_only": True,
              "layout": [None, lays["multi"][0], None, lays["nonmono"][0], None, lays["multi"][0], lays["nonmono"][0]]})
    out.append(d)
    # twelve levels (Level_10 and Level_11 sort before Level_2 as text); single corruptions only
    from .c02 import chain_mesh
    d = dict(chain_mesh(3, 12))
    d.update(list(scope.geometries(3))[(seed + 2) % 6])
    d.update({"fields": ["temp", "density"], "payload": "coded", "seed": seed, "layout_class": "twelve_levels", "singles_only": True,
              "layout": [None, lays["multi"][0]] + [None] * 10})
    out.append(d)
    return out


def same_file_pair(a, b, model):
    fa, fb = mutate.file_of(a, model), mutate.file_of(b, model)
    return fa is not None and fa == fb


def enumerate_mutants(desc, tier, textual=False, workdir="/dev/shm"):
    """list of (mutation list, coords flag)"""
    import tempfile
    d = tempfile.mkdtemp(prefix="kvenum.", dir=workdir)
    try:
        path, ref = build(desc, d, prehistory=False, pathform="plain")
        model = mutate.Model(path)
    finally:
        shutil.rmtree(d, ignore_errors=True)
    out = []
    s0 = mutate.singles(model, coords=False, textual=textual)
    s1 = mutate.singles(model, coords=True, textual=False)
    if desc.get("coords_only"):
        # the extreme geometries matter for the coordinate validation only: bound and index-line edits, in coordinate mode
        for m in s1:
            if m[0] in ("bound", "index"):
                out.append(([m], True))
        return out
    flt = desc.get("mut_filter")
    if flt:
        s0 = [m for m in s0 if m[0] in flt["ops"] and m[2] in flt["boxes"]]
        s1 = []
    for m in s0:
        out.append(([m], False))
    for m in s1:
        if m[0] == "bound":
            out.append(([m], True))
    # a sample-free subset of plain singles is also validated in coords mode: all index-line edits
    for m in s0:
        if m[0] == "index":
            out.append(([m], True))
    for a, b in ([] if desc.get("singles_only") else itertools.combinations(s0, 2)):
        if mutate.site(a) == mutate.site(b):
            continue
        if tier == "quick" and not same_file_pair(a, b, model):
            continue
        if tier == "quick" and (a[0] == "fod" and b[0] == "fod"):
            continue
        out.append(([a, b], False))
    return out


def cases(tier, seed, textual=False):
    out = []
    for bi, desc in enumerate(bases(seed)):
        muts = enumerate_mutants(desc, tier, textual=textual)
        for i in range(0, len(muts), CHUNK):
            out.append({"desc": desc, "mutants": muts[i:i + CHUNK], "w": 1})
    return out


def run_taste(path, limit, coords, nofail, ascii_out=False):
    """ascii_out: the standard output of the process can only encode ASCII (a C-locale terminal, a log file opened that way):
    part of the environment - the verdict must not depend on it"""
    from amr_kitchen.taste import Taster
    import io
    old = sys.stdout
    if ascii_out:
        sys.stdout = io.TextIOWrapper(io.BytesIO(), encoding="ascii", errors="strict", write_through=True)
    try:
        with vpool.controlled() as ctl:
            st, val = call(lambda: Taster(path, limit_level=limit, boxes_coordinates=coords, nofail=nofail, verbose=0))
    finally:
        sys.stdout = old
    if st == "exc":
        return "raised", val
    return ("good" if bool(val) else "bad"), val


def run_case(case, workdir, mode="C04"):
    rec = Rec()
    desc = case["desc"]
    base, ref = build(desc, workdir, name="base")
    model0 = mutate.Model(base)
    dh = h64(desc)
    # sanity: the unmutated base is good
    if mutate.ref_bad(base, None, True) is not None:
        raise RuntimeError("harness: base plotfile is ref_bad: %s" % mutate.ref_bad(base, None, True))
    # earlier in the process the caller validated the intact plotfile with one stage switched off at a time (an option belongs
    # to the call that gives it: the validations below use the defaults)
    if mode == "C04":
        from amr_kitchen.taste import Taster as _T
        for kw in ({"binary_shape": False}, {"binary_headers": False}, {"binary_shape": False, "binary_headers": False}):
            with vpool.controlled():
                call(lambda: _T(base, nofail=True, verbose=0, **kw))
    # history at ONE path: intact, damaged in place, repaired, damaged otherwise ... every verdict must follow the directory
    if mode == "C04" and not desc.get("coords_only"):
        ip = os.path.join(workdir, "inplace")
        seq = [None] + [mu for mu, co in case["mutants"][:3] if len(mu) == 1 and not co]
        seq = [x for pair in zip(seq, [None] * len(seq)) for x in pair][:-1] if len(seq) > 1 else seq
        for k, mu in enumerate(seq):
            shutil.rmtree(ip, ignore_errors=True)
            m = model0.clone()
            if mu is not None and not all(mutate.apply(m, x) for x in mu):
                continue
            m.write(ip)
            rb = mutate.ref_bad(ip, None, False)
            v, e = run_taste(ip, None, False, nofail=True)
            rec.exe([dh, "inplace", k, mu], nontrivial=rb is not None)
            sub = {"history": "same path rewritten in place", "step": k, "mutations": mu, "limit_level": None, "coords": False}
            if rb is not None and v == "good":
                rec.fail("bad_reported_good", sub, "after an in-place change of the directory: ref_bad: %s" % rb)
            elif rb is None and mu is None and v != "good":
                rec.fail("restored_directory_rejected", sub, "the intact directory is rejected after an earlier damaged version at the same path")
        shutil.rmtree(ip, ignore_errors=True)
    for mi, (muts, coords) in enumerate(case["mutants"]):
        m = model0.clone()
        applicable = all(mutate.apply(m, mu) for mu in muts)
        if not applicable:
            rec.count("inapplicable")
            continue
        mp = os.path.join(workdir, "m%d" % mi)
        m.write(mp)
        for limit in (None, 0):
            sub = {"mutations": muts, "limit_level": limit, "coords": coords}
            rb = mutate.ref_bad(mp, limit, coords)
            if mode == "C04":
                v_fail, e1 = run_taste(mp, limit, coords, nofail=False)
                v_nofail, e2 = run_taste(mp, limit, coords, nofail=True, ascii_out=(mi % 3 == 0))
                rec.exe([dh, muts, limit, coords], nontrivial=rb is not None, trans=2)
                rec.count("ref_bad" if rb else "ref_ok")
                rec.count("taste_accepts" if v_nofail == "good" else "taste_rejects")
                if limit is None and not coords:
                    import amr_kitchen.taste.cli as tcli
                    from ..common import run_cli
                    with vpool.controlled():
                        c1 = run_cli(tcli.main, ["taste", mp, "-v", "0"])
                        c2 = run_cli(tcli.main, ["taste", mp, "-v", "0", "-nf"])
                    if rb is not None and c1[0] == "ok":
                        rec.fail("cli_bad_not_reported", sub, "ref_bad: %s; 'taste <plotfile>' ended normally" % rb)
                    if c2[0] != "ok":
                        rec.fail("cli_nofail_raised", sub, "'taste -nf' ended with %s %s" % c2)
                if rb is not None:
                    if v_fail != "raised":
                        rec.fail("bad_not_raised_in_failing_mode", sub, "ref_bad: %s; Taster(...) returned, bool=%s" % (rb, v_fail))
                    if v_nofail == "raised":
                        rec.fail("nofail_mode_raised", sub, "ref_bad: %s; %s" % (rb, exc_text(e2)))
                    elif v_nofail == "good":
                        rec.fail("bad_reported_good", sub, "ref_bad: %s" % rb)
                else:
                    if v_nofail == "raised":
                        # not demanded by C04 (the directory is not bad by the statement) but nofail must not raise
                        rec.count("nofail_raised_on_ref_ok")
                    rec.outcome("%s/%s" % (v_fail, v_nofail))
            else:
                c20_oracle(rec, dh, sub, mp, limit, coords, ref, rb)
        shutil.rmtree(mp, ignore_errors=True)
    rec.sample({"desc": desc, "mutant": case["mutants"][0][0]})
    return rec.result()


_fabpat_cache = {}


_IDX_LINE = re.compile(r"^\(\(([-\d,]+)\)\s+\(([-\d,]+)\)\s+\(([-\d,]+)\)\)\s*$")


def own_level_indexes(mp):
    """per level, the index ranges listed in the level header that the Header's k-th path line names; None where unreadable"""
    try:
        with open(os.path.join(mp, "Header")) as f:
            lines = f.read().split("\n")
        dirs = [l.strip() for l in lines if l.strip().endswith("/Cell") and " " not in l.strip()]
        out = []
        for dline in dirs:
            try:
                with open(os.path.join(mp, dline + "_H")) as f:
                    L = f.read().split("\n")
                nb = int(L[4].split()[0].lstrip("("))
                rows = []
                for l in L[5:5 + nb]:
                    m = _IDX_LINE.match(l.strip())
                    if not m:
                        rows = None
                        break
                    rows.append((tuple(int(a) for a in m.group(1).split(",")), tuple(int(a) for a in m.group(2).split(","))))
                out.append(rows)
            except Exception:
                out.append(None)
        return out
    except Exception:
        return None


def c20_oracle(rec, dh, sub, mp, limit, coords, ref, rb):
    """For a mutant that default validation reports good: every box reads, has the declared shape and
    the values of a FAB in its file whose header names that range."""
    from amr_kitchen import PlotfileCooker
    if coords:
        return
    v_nofail, e2 = run_taste(mp, limit, False, nofail=True)
    rec.count("taste_accepts" if v_nofail == "good" else "taste_rejects")
    if v_nofail != "good":
        rec.exe([dh, sub], nontrivial=False)
        return
    rec.exe([dh, sub], nontrivial=True)
    with vpool.controlled():
        st, pck = call(lambda: PlotfileCooker(mp, limit_level=limit))
    if st == "exc":
        rec.fail("accepted_but_unopenable", sub, exc_text(pck))
        return
    nf = len(pck.fields)
    # the index ranges the reader holds for level k are those of level k's OWN header (named by the k-th `<dir>/Cell` line of the
    # Header), read here independently and leniently (no demand where that fails)
    own = own_level_indexes(mp)
    for lv in range(pck.limit_level + 1):
        if own is not None and lv < len(own) and own[lv] is not None:
            got_ = [(tuple(int(v) for v in i_[0]), tuple(int(v) for v in i_[1])) for i_ in pck.cells[lv]["indexes"]]
            if got_ != own[lv]:
                rec.fail("accepted_but_wrong_level_header", dict(sub, level=lv),
                         "the reader holds %d boxes %r... for level %d, its level header lists %d boxes %r..." % (len(got_), got_[:1], lv, len(own[lv]), own[lv][:1]))
    for lv in range(pck.limit_level + 1):
        for b in range(len(pck.cells[lv]["indexes"])):
            idx = pck.cells[lv]["indexes"][b]
            lo = tuple(int(v) for v in idx[0])
            hi = tuple(int(v) for v in idx[1])
            shape = tuple(h - l + 1 for l, h in zip(lo, hi)) + (nf,)
            with vpool.controlled():
                st, arr = call(lambda: pck[:][lv][b])
            if st == "exc":
                rec.fail("accepted_but_unreadable", dict(sub, level=lv, box=b), exc_text(arr))
                continue
            if not isinstance(arr, np.ndarray) or arr.shape != shape:
                rec.fail("accepted_but_wrong_shape", dict(sub, level=lv, box=b),
                         "shape %s, level header declares %s" % (getattr(arr, "shape", None), shape))
                continue
            # candidates: every FAB in the box's file whose header names that range
            with open(pck.cells[lv]["files"][b], "rb") as f:
                data = f.read()
            pat = re.compile(rb"\(\(" + ",".join(map(str, lo)).encode() + rb"\)\s+\(" + ",".join(map(str, hi)).encode()
                             + rb"\)\s+\([\d,]+\)\)\s+(\d+)\n")
            ok = False
            n = int(np.prod(shape))
            for mm in pat.finditer(data):
                raw = data[mm.end():mm.end() + n * 8]
                if len(raw) == n * 8 and raw == np.asfortranarray(arr).tobytes(order="F"):
                    ok = True
                    break
            if not ok:
                rec.fail("accepted_but_wrong_values", dict(sub, level=lv, box=b),
                         "box data differ from every FAB of the file naming range %s %s" % (lo, hi))
                continue
            # the other selector forms go through other reader functions: same data, declared shape
            forms_ = [(nf - 1, arr[..., nf - 1]), ([0, nf - 1], arr[..., [0, nf - 1]]), (list(pck.fields)[0], arr[..., 0])]
            if nf >= 4:          # the ends of a consecutive run around a permuted interior; a run followed by a far field
                forms_ += [([0, 2, 1, 3], arr[..., [0, 2, 1, 3]]), ([1, 2, nf - 1], arr[..., [1, 2, nf - 1]])]
            for sel, want in forms_:
                with vpool.controlled():
                    st2, a2 = call(lambda: pck[sel][lv][b])
                if st2 == "exc":
                    rec.fail("accepted_but_unreadable", dict(sub, level=lv, box=b, selector=str(sel)), exc_text(a2))
                elif not isinstance(a2, np.ndarray) or a2.shape != want.shape:
                    rec.fail("accepted_but_wrong_shape", dict(sub, level=lv, box=b, selector=str(sel)),
                             "shape %s, level header declares %s" % (getattr(a2, "shape", None), want.shape))
                elif a2.tobytes() != np.ascontiguousarray(want).tobytes():
                    rec.fail("accepted_but_wrong_values", dict(sub, level=lv, box=b, selector=str(sel)), "selector forms disagree")
        # box selectors that name several boxes: a cyclic rotation (a 3-cycle with three boxes), a reversed slice, a mask
        nbx = len(pck.cells[lv]["indexes"])
        rot = list(range(1, nbx)) + [0]
        for bsel, ids in ((rot, rot), (slice(None, None, -1), list(range(nbx))[::-1]),
                          ([bool((i + 1) % 2) for i in range(nbx)], [i for i in range(nbx) if (i + 1) % 2])):
            with vpool.controlled():
                st4, v4 = call(lambda: (list(pck[:][lv][bsel]), [pck[:][lv][i] for i in ids]))
            if st4 == "exc":
                rec.fail("accepted_but_unreadable", dict(sub, level=lv, box_selector=str(bsel)), exc_text(v4))
            elif len(v4[0]) != len(ids) or not all(isinstance(x, np.ndarray) and isinstance(y, np.ndarray) and x.shape == y.shape
                                                    and x.tobytes() == y.tobytes() for x, y in zip(*v4)):
                rec.fail("accepted_but_wrong_values", dict(sub, level=lv, box_selector=str(bsel)),
                         "boxes read through a multi-box selector are not the boxes it names, in its order")
        # one stream object read box after box (list selector not starting at field 0)
        if nf >= 2:
            with vpool.controlled():
                def stream():
                    s_ = pck[list(range(1, nf))][lv]
                    return [s_[b] for b in range(nbx)], [pck[:][lv][b] for b in range(nbx)]
                st3, v3 = call(stream)
            if st3 == "exc":
                rec.fail("accepted_but_unreadable", dict(sub, level=lv, selector="one stream object"), exc_text(v3))
            elif not all(isinstance(x, np.ndarray) and isinstance(y, np.ndarray) and x.shape == y[..., 1:].shape
                         and x.tobytes() == np.ascontiguousarray(y[..., 1:]).tobytes() for x, y in zip(*v3)):
                rec.fail("accepted_but_wrong_values", dict(sub, level=lv, selector="one stream object"),
                         "reads through one re-used stream object disagree with fresh reads")


SIGNATURES = {}
