"""C11 - chef writes recipe(box) under the right names with true min/max."""
import os
import sys
import shutil
import itertools
import numpy as np
from .. import scope, vpool, oracle, explorer
from ..common import build, call, exc_text
from ..refmodel import ParsedPlot, refplot_from_desc, write_plotfile, normalise_desc, tree_digest, bits_equal
from ..runner import Rec, h64

PROPERTY = "C11"
LEVEL = "model_checking"
RULE = ("case (a) = generated 3D plotfile (<= 2 levels, every layout of one deviating level) x user recipe without solution "
        "array (one- and three-component) x kept-field string (None, one, two, reversed, with an unknown name) x serial / "
        "parallel under every order of the per-file tasks; case (b) = the drm19 template (24 fields, two box shapes, cells with "
        "T = 0 and sum(Y) = 0) x {HRR, ENT, SRi, SDi, RRi, user recipe with solution array} x kept fields x serial / parallel; "
        "execution = one Chef(...).cook(), output parsed independently: validity (reference + taste), every component under its "
        "own name (kept = input bits, new = recipe(reference box) resp. a per-cell Cantera Solution at the cell's T, P, Y, "
        "rtol 1e-12), min/max = extrema of the written data; non-trivial = kept fields given, multi-file layout or Cantera recipe")
ASSUMPTIONS = ["cells whose thermodynamic state the tool itself declares undefined (T ~ 0 or sum(Y) ~ 0) carry no demand on the NEW components",
               "in-process controlled pool with a dill pickle boundary (pathos); worker-lifetime state across cooks is C12's subject"]
CASE_TIMEOUT = 1800

R1 = '''import numpy as np
def recipe(field_indexes, box_array):
    """
    mix
    """
    t = box_array[:, :, :, field_indexes["temp"]]
    d = box_array[:, :, :, field_indexes["density"]]
    return t * 2.0 + d
'''
R3 = '''import numpy as np
def recipe(field_indexes, box_array):
    """
    r_sum r_prod
    r_diff
    """
    t = box_array[:, :, :, field_indexes["temp"]]
    d = box_array[:, :, :, field_indexes["density"]]
    z = box_array[:, :, :, field_indexes["Z"]]
    return np.stack([t + d, t * d, z - t], axis=3)
'''
RS = '''def recipe(field_indexes, box_array, sol_array):
    """
    cp_mass
    """
    return sol_array.cp_mass
'''


def r1(a, f):
    return (a[..., f["temp"]] * 2.0 + a[..., f["density"]])[..., None]


def r3(a, f):
    t, d, z = a[..., f["temp"]], a[..., f["density"]], a[..., f["Z"]]
    return np.stack([t + d, t * d, z - t], axis=3)


R0 = '''def recipe(field_indexes, box_array):
    return box_array[:, :, :, field_indexes["Z"]] * -1.5
'''


def r0(a, f):
    return (a[..., f["Z"]] * -1.5)[..., None]


def callable_recipe(field_indexes, box_array):
    """
    c_one c_two
    """
    import numpy
    t = box_array[:, :, :, field_indexes["temp"]]
    z = box_array[:, :, :, field_indexes["Z"]]
    return numpy.stack([t - z, z * 3.0], axis=3)


def rcall(a, f):
    return np.stack([a[..., f["temp"]] - a[..., f["Z"]], a[..., f["Z"]] * 3.0], axis=3)


# R0: no docstring -> the documented default name; RC: the recipe is passed as a callable, not as a file
USER = {"R1": (R1, ["mix"], r1), "R3": (R3, ["r_sum", "r_prod", "r_diff"], r3), "R0": (R0, ["user_defined"], r0),
        "RC": (None, ["c_one", "c_two"], rcall)}
KEPT = [None, "Z", "density Z", "Z temp", "Z nope density"]
SPECIES = ["H2", "H", "O", "O2", "OH", "H2O", "HO2", "CH2", "CH2(S)", "CH3", "CH4", "CO", "CO2", "HCO", "CH2O", "CH3O",
           "C2H4", "C2H5", "C2H6", "N2", "AR"]
MECH = os.path.join(os.environ.get("KV_ASSETS", "/repo/test_assets"), "drm19.yaml")


def bounds(tier):
    return {"user_recipes": ["1 component", "3 components", "no docstring (default name)", "passed as a callable", "solution-array recipe (1 and 2 components)"], "builtins": ["HRR", "ENT", "SRi", "SDi", "RRi"],
            "kept": KEPT, "modes": ["serial", "parallel x task orders (<= 4 files)"]}


def mesh_a():
    return {"ndims": 3, "domain": [4, 4, 2],
            "levels": [[[[0, 0, 0], [1, 3, 1]], [[2, 0, 0], [3, 1, 1]], [[2, 2, 0], [3, 3, 1]]],
                       [[[2, 2, 0], [5, 5, 3]], [[0, 6, 0], [1, 7, 1]], [[6, 0, 2], [7, 1, 3]]]]}


def cases(tier, seed):
    out = []
    m = mesh_a()
    geo = scope.rotate(list(scope.geometries(3)), seed)[0]
    nlev = 2
    L = scope.layouts(3, 'all' if tier == "thorough" else 'idrev')
    variants = [[None, None]]
    for lv in range(nlev):
        for lay in L[1:]:
            v = [None, None]
            v[lv] = lay
            variants.append(v)
    variants.append([{"files": [[0], [2, 1]], "nums": [1, 3]}, {"files": [[1], [0], [2]], "nums": [7, 2, 100000]}])
    # file numbers of different widths (as text Cell_D_100000 sorts before Cell_D_99999)
    variants.append([scope.wide_numbers(L[-1], 1), scope.wide_numbers(L[len(L) // 2], 0)])
    variants.append([scope.wide_numbers({"files": [[2, 0], [1]], "nums": [1, 0]}, 1), None])
    for vi, lay in enumerate(variants):
        d = dict(m)
        d.update(geo)
        # (the kept field Z and the recipe inputs hold a few cells of -0.0: kept components are compared bit for bit)
        pk = "pos" if vi % 2 else "signed"
        d.update({"fields": ["temp", "density", "Z", "Zvar"], "payload": [pk, pk, pk + "+negzero", pk + "+negzero"], "layout": lay, "seed": seed})
        out.append({"kind": "user", "desc": d, "full": vi == 0 or tier == "thorough", "schedules": vi in (0, len(variants) - 1, len(variants) // 2),
                    "w": 6 if vi == 0 else 1})
    if tier == "thorough":
        # every recipe x kept-field string on the other hand-made meshes (1..3 levels, thin boxes) under every geometry incl. the
        # extreme ones, each with a non-monotone multi-file layout on every level
        for mi, mesh in enumerate(scope.named_meshes(3) + scope.thin_meshes(3)):
            for gi, g in enumerate(list(scope.geometries(3)) + scope.extreme_geometries(3)):
                d = dict(mesh)
                d.update(g)
                d.update({"fields": ["temp", "density", "Z", "Zvar"], "payload": ["signed", "pos"][(mi + gi) % 2], "seed": seed,
                          "layout": [scope.layouts(len(b), 'idrev')[-1 - (gi % 2)] if len(b) > 1 else None for b in mesh["levels"]]})
                out.append({"kind": "user", "desc": d, "full": True, "schedules": gi == mi % 6, "w": 6})
    # level directories named otherwise than Level_k
    d = dict(m)
    d.update(geo)
    d.update({"fields": ["temp", "density", "Z", "Zvar"], "payload": "signed", "layout": variants[1], "seed": seed, "levelprefix": "Lev_"})
    out.append({"kind": "user", "desc": d, "full": False, "schedules": False, "w": 3})
    # seven levels towards the far corner, twelve fields: FAB header lines longer than 100 bytes in input and output
    d = dict(scope.deep_corner_mesh())
    d.update(geo)
    L2 = scope.layouts(2, 'idrev')
    d.update({"fields": ["temp", "density", "Z", "Zvar"] + ["p%d" % i for i in range(8)], "payload": ["pos", "signed", "coded"] * 4,
              "layout": [None, L2[-1], None, L2[1], None, L2[2], L2[-1]], "seed": seed})
    out.append({"kind": "user", "desc": d, "full": False, "schedules": False, "w": 6})
    # Cantera part
    for ri, rec_ in enumerate(["HRR", "ENT", "SRi", "SDi", "RRi", "USER_S"]):
        for ki, kept in enumerate([None, "density", "temp Zmix", "Zmix density", "Y(O2) temp"]):
            if tier == "quick":
                if ki >= 3 and ri % 2:
                    continue
                out.append({"kind": "cantera", "recipe": rec_, "kept": kept, "seed": seed, "w": 40,
                            "layout": (ri + ki) % 3, "pressure": [1.0, 5.0][(ri + ki) % 2]})
            else:
                for lay in range(3):
                    for pr in (1.0, 5.0):
                        out.append({"kind": "cantera", "recipe": rec_, "kept": kept, "seed": seed, "w": 40, "layout": lay, "pressure": pr})
    out.append({"kind": "cantera", "recipe": "USER_S", "kept": "Y(O2) temp", "seed": seed, "w": 40, "layout": 1, "pressure": 1.0})
    out.append({"kind": "cantera", "recipe": "ENT", "kept": "Y(O2) temp", "seed": seed, "w": 40, "layout": 2, "pressure": 1.0})
    out.append({"kind": "cantera", "recipe": "RRi", "kept": "temp", "seed": seed, "w": 60, "layout": 1, "pressure": 1.0, "all_reactions": True})
    # a planar flame (state invariant along x and y); a pressure at the far end of the range (1500 atm)
    for rec_ in ("HRR", "ENT"):
        out.append({"kind": "cantera", "recipe": rec_, "kept": "temp", "seed": seed, "w": 40, "layout": 1, "pressure": 1.0, "planar": True})
    for rec_ in ("SDi", "HRR"):
        out.append({"kind": "cantera", "recipe": rec_, "kept": None, "seed": seed, "w": 40, "layout": 2, "pressure": 1500.0})
    return out


# -------------------------------------------------------------------------------------------
def check_components(rec, sub, pp, ref, names_in, expect_new, new_names, kept_names, undefined=None, rtol=0.0):
    """every output component is stored under its own name"""
    outnames = pp.fields
    if sorted(outnames) != sorted(kept_names + new_names):
        rec.fail("field_names", sub, "fields %r, expected the kept %r and the new %r" % (outnames, kept_names, new_names))
        return
    for lv in range(ref.nlevels):
        pl = pp.levels[lv]
        for b, box in enumerate(pl.index):
            if box not in ref.boxes[lv]:
                continue
            rb = ref.boxes[lv].index(box)
            try:
                arr = pp.fab_at(lv, b)[3]
            except Exception as e:
                rec.fail("box_unreadable", sub, exc_text(e))
                continue
            src = ref.data[lv][rb]
            if arr.shape[:-1] != src.shape[:-1] or arr.shape[-1] != len(outnames):
                rec.fail("shape", sub, "level %d box %s: %s" % (lv, box, arr.shape))
                continue
            new = expect_new(lv, rb)
            for ci, nm in enumerate(outnames):
                got = arr[..., ci]
                if nm in kept_names:
                    want = src[..., names_in.index(nm)]
                    if not bits_equal(got, want):
                        nbad = int(np.count_nonzero(np.ascontiguousarray(got).view(np.uint64) != np.ascontiguousarray(want).view(np.uint64)))
                        holds = [n2 for n2 in names_in if bits_equal(got, src[..., names_in.index(n2)])]
                        rec.fail("kept_field_not_identical", dict(sub, field=nm, level=lv),
                                 "kept field %s: %d cells differ from the input%s" % (nm, nbad, (" (the component holds %s)" % holds[0]) if holds else ""))
                else:
                    want = new[..., new_names.index(nm)]
                    if rtol == 0.0:
                        ok = np.ascontiguousarray(got).view(np.uint64) == np.ascontiguousarray(want).view(np.uint64)
                    else:
                        with np.errstate(invalid="ignore"):
                            ok = np.abs(got - want) <= rtol * np.abs(want) + 1e-300
                            ok |= (got != got) & (want != want)
                    if undefined is not None:
                        ok = ok | undefined(lv, rb)
                    if not ok.all():
                        i = tuple(np.argwhere(~ok)[0])
                        rec.fail("new_field_wrong", dict(sub, field=nm, level=lv),
                                 "new field %s level %d box %s cell %s: %r, recipe gives %r" % (nm, lv, box, i, got[i], want[i]))


def common_output_checks(rec, sub, out, ref):
    pp = oracle.parse_output(rec, sub, out)
    if pp is None:
        return None
    probs = pp.problems(check_minmax=True, coords=True)
    if probs:
        rec.fail("output_invalid", sub, "; ".join(probs[:3]))
    if pp.finest + 1 != ref.nlevels or any(sorted(pp.levels[lv].index) != sorted(ref.boxes[lv]) for lv in range(min(pp.finest + 1, ref.nlevels))):
        rec.fail("mesh", sub, "output mesh differs from the input's")
        return None
    oracle.taste_accepts(rec, sub, out)
    return pp


def run_user(case, workdir, rec):
    from amr_kitchen.chef import Chef
    desc = case["desc"]
    path, ref = build(desc, workdir)
    dh = h64(desc)
    names = desc["fields"]
    fidx = {n: i for i, n in enumerate(names)}
    before = tree_digest(path)
    k = 0
    for rname, (src, new_names, fn) in sorted(USER.items()):
        if src is None:
            rpath = callable_recipe
        else:
            rpath = os.path.join(workdir, rname + ".py")
            with open(rpath, "w") as f:
                f.write(src)
        keeps = KEPT if (case["full"] and rname in ("R1", "R3")) else [None, "Z temp"]
        for kept in keeps:
            kept_names = [n for n in (kept.split() if kept else []) if n in names]
            for serial in (True, False):
                def run(plan):
                    nonlocal k
                    k += 1
                    out = os.path.join(workdir, "ck%d" % k)
                    # (every fourth cook names plotfile and output through pathlib.Path objects: honoured or refused)
                    import pathlib
                    aspath = (k % 4 == 0) and not plan
                    with vpool.controlled(plan) as ctl:
                        r = call(lambda: Chef(pathlib.Path(path) if aspath else path, recipe=rpath, outfile=pathlib.Path(out) if aspath else out,
                                              serial=serial, kept_fields=kept).cook())
                        if aspath and r[0] == "exc":
                            shutil.rmtree(out, ignore_errors=True)
                            r = call(lambda: Chef(path, recipe=rpath, outfile=out, serial=serial, kept_fields=kept).cook())
                    return ctl, (r, out)
                runs = explorer.explore(run, bound=1) if (case["schedules"] and not serial and kept in (None, "Z temp")) else [({},) + run({})]
                digests = set()
                for plan, ctl, ((st, val), out) in runs:
                    sub = {"recipe": rname, "kept": kept, "serial": serial, "plan": explorer.plan_json(plan)}
                    rec.exe([dh, sub], nontrivial=bool(kept) or any(l for l in desc["layout"]), trans=1 + sum(c["n"] for c in ctl.calls))
                    if st == "exc":
                        rec.fail("raised", sub, exc_text(val))
                        continue
                    pp = common_output_checks(rec, sub, out, ref)
                    if pp is not None:
                        check_components(rec, sub, pp, ref, names, lambda lv, b: fn(ref.data[lv][b], fidx), new_names, kept_names)
                        digests.add(tree_digest(out))
                    shutil.rmtree(out, ignore_errors=True)
                if len(digests) > 1:
                    rec.fail("schedule_dependent", {"recipe": rname, "kept": kept}, "%d distinct output trees over schedules" % len(digests))
    # the command line entry point (always parallel) must write what the API writes
    import amr_kitchen.chef.cli as ccli
    from ..common import run_cli
    for rname, kept in (("R1", None), ("R3", "Z temp")):
        out = os.path.join(workdir, "ck_cli")
        out2 = os.path.join(workdir, "ck_api")
        argv = ["chef", path, "-r", os.path.join(workdir, rname + ".py"), "-o", out] + (["-k", kept] if kept else [])
        with vpool.controlled():
            st, val = run_cli(ccli.main, argv)
            st2, val2 = call(lambda: Chef(path, recipe=os.path.join(workdir, rname + ".py"), outfile=out2, serial=True, kept_fields=kept).cook())
        rec.exe([dh, "cli", rname, kept], nontrivial=True)
        if st != "ok":
            rec.fail("cli_failed", {"argv": argv}, "%s %s" % (st, val))
        elif st2 == "ok" and tree_digest(out) != tree_digest(out2):
            rec.fail("cli_differs_from_api", {"argv": argv}, "the chef command wrote another tree than Chef(...).cook()")
        shutil.rmtree(out, ignore_errors=True)
        shutil.rmtree(out2, ignore_errors=True)
    # history: two recipe FILES with the same base name in one process (study_one/recipe.py, then study_two/recipe.py)
    for serial in (True, False):
        outs = []
        for k2, rname in enumerate(("R1", "R3")):
            dd = os.path.join(workdir, "study_%d_%d" % (k2, serial))
            os.makedirs(dd, exist_ok=True)
            with open(os.path.join(dd, "recipe.py"), "w") as f:
                f.write(USER[rname][0])
            out = os.path.join(workdir, "ck_same_name_%d" % k2)
            with vpool.controlled():
                st, val = call(lambda: Chef(path, recipe=os.path.join(dd, "recipe.py"), outfile=out, serial=serial, kept_fields="Z").cook())
            outs.append((rname, st, val, out))
        rec.exe([dh, "same_recipe_basename", serial], nontrivial=True, trans=2)
        rname, st, val, out = outs[1]
        sub = {"history": "another recipe file with the same base name cooked before", "recipe": rname, "serial": serial}
        if st == "exc":
            rec.fail("history_raised", sub, exc_text(val))
        else:
            pp = common_output_checks(rec, sub, out, ref)
            if pp is not None:
                check_components(rec, sub, pp, ref, names, lambda lv, b: USER[rname][2](ref.data[lv][b], fidx), USER[rname][1], ["Z"])
        for _r, _s, _v, o_ in outs:
            shutil.rmtree(o_, ignore_errors=True)
    # history on ONE Chef object: cooking twice must give the same output tree
    for serial in (True, False):
        out = os.path.join(workdir, "ck_twice")
        with vpool.controlled():
            def twice():
                c = Chef(path, recipe=os.path.join(workdir, "R3.py"), outfile=out, serial=serial, kept_fields="Z temp")
                c.cook()
                d1 = tree_digest(out)
                c.cook()
                return d1, tree_digest(out)
            st, val = call(twice)
        rec.exe([dh, "cook_twice", serial], nontrivial=True, trans=2)
        sub = {"history": "two cook() calls on one Chef object", "serial": serial}
        if st == "exc":
            rec.fail("history_raised", sub, exc_text(val))
        elif val[0] != val[1]:
            rec.fail("history_dependent", sub, "second cook() wrote another tree")
        shutil.rmtree(out, ignore_errors=True)
    if tree_digest(path) != before:
        rec.fail("input_modified", {}, "")
    # LAST (it changes the input): a Chef is constructed, then ANOTHER TIME STEP of the same run is copied over the plotfile (every
    # file overwritten in place: same mesh, layout and sizes, other values and other min / max tables), then the Chef cooks - the
    # output holds the recipe of what the plotfile holds now, with the extrema of what was written
    d2 = dict(desc, seed=desc.get("seed", 0) + 778, time=desc.get("time", 0.5) + 0.125)
    if isinstance(desc.get("payload"), list):
        d2["payload"] = [("signed" if p_.startswith("pos") else "pos") + ("+negzero" if p_.endswith("+negzero") else "") for p_ in desc["payload"]]
    tmp = os.path.join(workdir, "next_step")
    ref2 = write_plotfile(d2, tmp)
    for serial in (True, False):
        out = os.path.join(workdir, "ck_replaced")
        with vpool.controlled():
            def later():
                c = Chef(path, recipe=os.path.join(workdir, "R3.py"), outfile=out, serial=serial, kept_fields="Z temp")
                for root_, dirs_, files_ in os.walk(tmp):
                    for fn_ in files_:
                        src_ = os.path.join(root_, fn_)
                        with open(src_, "rb") as fi, open(os.path.join(path, os.path.relpath(src_, tmp)), "wb") as fo:
                            fo.write(fi.read())
                c.cook()
            st, val = call(later)
        rec.exe([dh, "time_step_replaced", serial], nontrivial=True, trans=2)
        sub = {"history": "Chef constructed, then another time step copied over the plotfile in place, then cook()", "serial": serial, "recipe": "R3", "kept": "Z temp"}
        if st == "exc":
            rec.fail("history_raised", sub, exc_text(val))
        else:
            pp = common_output_checks(rec, sub, out, ref2)
            if pp is not None:
                check_components(rec, sub, pp, ref2, names, lambda lv, b: USER["R3"][2](ref2.data[lv][b], fidx), USER["R3"][1], ["Z", "temp"])
        shutil.rmtree(out, ignore_errors=True)
    rec.sample({"desc": desc, "recipes": sorted(USER), "kept": KEPT})


# -------------------------------------------------------------------------------------------
def thermo_desc(seed, layout, planar=False):
    fields = ["density", "temp"] + ["Y(%s)" % s for s in SPECIES] + ["Zmix"]
    mesh = {"ndims": 3, "domain": [4, 4, 2],
            "levels": [[[[0, 0, 0], [3, 1, 1]], [[0, 2, 0], [1, 3, 1]], [[2, 2, 0], [3, 3, 1]]], [[[2, 2, 0], [5, 5, 3]]]]}
    lays = [[None, None], [{"files": [[2, 0], [1]], "nums": [0, 1]}, None], [{"files": [[1], [2], [0]], "nums": [2, 0, 1]}, None]]
    d = dict(mesh)
    d.update({"fields": fields, "payload": "pos", "layout": lays[layout], "seed": seed, "origin": [0.0, 0.0, 0.0], "dx0": [0.25, 0.25, 0.25]})
    if planar:
        d["planar"] = True        # a planar flame: the thermochemical state varies along z only, no undefined cells
    return d


def thermo_ref(d):
    ref = refplot_from_desc(d)
    ns = len(SPECIES)
    for lv in range(ref.nlevels):
        for b, a in enumerate(ref.data[lv]):
            lo, hi = ref.boxes[lv][b]
            idx = np.meshgrid(*[np.arange(lo[k], hi[k] + 1) for k in range(3)], indexing="ij")
            s = idx[0] + 2 * idx[1] + 3 * idx[2] + lv
            if d.get("planar"):
                s = 3 * idx[2] + lv + 0 * idx[0]
            a[..., 1] = 600.0 + 100.0 * (s % 13)                       # temp
            w = np.empty(a.shape[:-1] + (ns,))
            for k in range(ns):
                w[..., k] = 0.02 + ((s + k) % 5) * 0.01
            w[..., 0] += 0.1          # H2
            w[..., 3] += 0.3          # O2
            w[..., 10] += 0.1         # CH4
            w[..., 19] += 0.4         # N2
            w /= w.sum(axis=-1)[..., None]
            a[..., 2:2 + ns] = w
            if d.get("planar"):
                continue
            # undefined states at fixed cells (every second box has an empty composition at a NON-zero temperature only:
            # the two kinds of undefined state do not always come together)
            a[-1, -1, -1, 2:2 + ns] = 0.0            # sum(Y) = 0
            if (b + lv) % 2 == 0:
                a[0, 0, 0, 1] = 0.0                      # T = 0
                if a.shape[0] > 2:
                    a[2, 0, 1, 1] = 0.0
                    a[2, 0, 1, 2:2 + ns] = 0.0
    return ref


_GAS = {}


def percell(prop, a, P, idx=None):
    """per-cell Cantera Solution evaluation of a SolutionArray property; a: box array (.., 24)"""
    import cantera as ct
    gas = _GAS.get("g")
    if gas is None:
        gas = _GAS["g"] = ct.Solution(MECH)
    ns = len(SPECIES)
    shape = a.shape[:-1]
    ncomp = 1 if idx is None else len(idx)
    out = np.full(shape + (ncomp,), np.nan)
    undefined = np.zeros(shape, dtype=bool)
    for c in itertools.product(*[range(n) for n in shape]):
        T = a[c + (1,)]
        Y = a[c][2:2 + ns]
        if np.isclose(T, 0) or np.isclose(Y.sum(), 0):
            undefined[c] = True
            continue
        gas.TPY = T, P, Y
        v = getattr(gas, prop)
        out[c] = v if idx is None else np.asarray(v)[idx]
    return out, undefined


def run_cantera(case, workdir, rec):
    import cantera as ct
    from amr_kitchen.chef import Chef
    d = thermo_desc(case["seed"], case["layout"], planar=bool(case.get("planar")))
    ref = thermo_ref(d)
    path = os.path.join(workdir, "plt00000")
    write_plotfile(d, path, ref=ref)
    names = d["fields"]
    dh = h64([d, case["recipe"], case["kept"], case["pressure"]])
    P = case["pressure"] * ct.one_atm
    rname = case["recipe"]
    kw = {}
    if rname == "SRi":
        kw["species"] = ["O2", "H2"]
        prop, idx, new_names = "net_production_rates", [3, 0], ["IRm(O2)", "IRm(H2)"]
    elif rname == "SDi":
        kw["species"] = ["H2"]
        prop, idx, new_names = "mix_diff_coeffs_mass", [0], ["DI(H2)"]
    elif rname == "RRi":
        rl_ = [0, 5, 83]
        if case.get("all_reactions"):
            rl_ = list(range(83, -1, -1))         # every reaction of the mechanism, last first (as many as the mechanism has)
        kw["reactions"] = rl_
        prop, idx, new_names = "net_rates_of_progress", list(rl_), ["R%d" % i for i in rl_]
    elif rname == "HRR":
        prop, idx, new_names = "heat_release_rate", None, ["HeatRelease"]
    elif rname == "ENT":
        prop, idx, new_names = "enthalpy_mass", None, ["Enthalpy"]
    else:
        prop, idx, new_names = "cp_mass", None, ["cp_mass"]
    recipe = rname
    if rname == "USER_S":
        recipe = os.path.join(workdir, "rs.py")
        with open(recipe, "w") as f:
            f.write(RS)
    kept = case["kept"]
    kept_names = [n for n in (kept.split() if kept else []) if n in names]
    cache = {}

    def expect(lv, b):
        if (lv, b) not in cache:
            cache[(lv, b)] = percell(prop, ref.data[lv][b], P, idx)
        return cache[(lv, b)][0]

    def undefined(lv, b):
        expect(lv, b)
        return cache[(lv, b)][1]
    before = tree_digest(path)
    k = 0
    for serial in (True, False):
        k += 1
        out = os.path.join(workdir, "ck%d" % k)
        sub = {"recipe": rname, "kept": kept, "serial": serial, "pressure_atm": case["pressure"], "layout": case["layout"]}
        with vpool.controlled() as ctl:
            st, val = call(lambda: Chef(path, recipe=recipe, outfile=out, mech=MECH, pressure=case["pressure"], serial=serial,
                                        kept_fields=kept, **kw).cook())
        rec.exe([dh, sub], nontrivial=True, trans=1 + sum(c["n"] for c in ctl.calls))
        if st == "exc":
            rec.fail("raised", sub, exc_text(val))
            continue
        pp = common_output_checks(rec, sub, out, ref)
        if pp is not None:
            check_components(rec, sub, pp, ref, names, expect, new_names, kept_names, undefined=undefined, rtol=1e-12)
        shutil.rmtree(out, ignore_errors=True)
    # command line form of the same cook
    import amr_kitchen.chef.cli as ccli
    from ..common import run_cli
    out = os.path.join(workdir, "ck_cli")
    argv = ["chef", path, "-r", recipe, "-o", out, "-m", MECH, "-p", str(case["pressure"])] + (["-k", kept] if kept else []) \
        + (["-s"] + kw["species"] if "species" in kw else []) + (["-R"] + [str(i) for i in kw["reactions"]] if "reactions" in kw else [])
    with vpool.controlled():
        st, val = run_cli(ccli.main, argv)
    rec.exe([dh, "cli"], nontrivial=True)
    if st != "ok":
        rec.fail("cli_failed", {"argv": argv}, "%s %s" % (st, val))
    else:
        pp = common_output_checks(rec, {"argv": argv}, out, ref)
        if pp is not None:
            check_components(rec, {"argv": argv}, pp, ref, names, expect, new_names, kept_names, undefined=undefined, rtol=1e-12)
    shutil.rmtree(out, ignore_errors=True)
    if tree_digest(path) != before:
        rec.fail("input_modified", {}, "")
    rec.sample({"template": "drm19 (24 fields, boxes 4x2x2 / 2x2x2 / 4x4x4)", "recipe": rname, "kept": kept, "pressure_atm": case["pressure"]})


def run_case(case, workdir):
    rec = Rec()
    if case["kind"] == "user":
        run_user(case, workdir, rec)
    else:
        run_cantera(case, workdir, rec)
    return rec.result()


SIGNATURES = {}
