"""C17 - chk2plt carries the checkpoint's interior state into a valid plotfile."""
import os
import sys
import shutil
import itertools
import numpy as np
from .. import scope, vpool, oracle, audit, chkmodel, explorer
from ..common import build, call, exc_text
from ..refmodel import ParsedPlot, write_plotfile
from ..runner import Rec, h64

PATHFORMS = False      # (this check spells its input paths itself)
PROPERTY = "C17"
LEVEL = "model_checking"
RULE = ("case = synthetic PeleLMeX checkpoint (1..3 levels, anisotropic domains and cells, ghost width 1..3, independent "
        "box->file layouts for the state / gradp / I_R subsets, 1..3 species, fractional / integral times); execution = "
        "chk2plt(chk, species source, gradp, reactions, flooring, pltdir) under one schedule of each level's imap (all orders "
        "of <= 4 per-state-file tasks x lazy|eager, deviation bound 1); output parsed independently and compared with the "
        "expected RefPlot: validity incl. box coordinates, taste(coords), fields, levels, boxes, time, geometry, bit-exact "
        "interior values (floored mass fractions within 4 eps and summing to one), min/max = extrema; checkpoint untouched; "
        "non-trivial = more than one box or level or a non-default option")
ASSUMPTIONS = ["checkpoint layout modelled on test_assets/example_chk_3d (the real reader accepts the synthetic ones)",
               "controlled in-process pool"]
EPS = np.finfo(float).eps


def bounds(tier):
    return {"levels": [1, 2, 3], "ghost": [1, 2, 3], "nspecies": [1, 2, 3], "options": "gradp x reactions x flooring",
            "species_source": ["list", "reference plotfile with Y(..)", "reference plotfile with only I_R(..)"],
            "times": ["fractional", "0.0", "2.0"]}


def meshes():
    return [
        {"domain": [4, 4, 4], "levels": [[[[0, 0, 0], [3, 3, 3]]]]},
        {"domain": [4, 6, 2], "levels": [[[[0, 0, 0], [3, 1, 1]], [[0, 2, 0], [3, 5, 1]]],
                                         [[[2, 2, 0], [5, 5, 3]], [[0, 8, 0], [3, 11, 1]], [[6, 0, 2], [7, 3, 3]]]]},
        {"domain": [4, 4, 2], "levels": [[[[0, 0, 0], [1, 3, 1]], [[2, 0, 0], [3, 3, 1]]],
                                         [[[0, 0, 0], [3, 3, 3]], [[4, 2, 0], [7, 5, 1]]],
                                         [[[2, 2, 2], [5, 5, 5]]]]},
    ]


GEOS = [{"origin": [0.0, 0.0, 0.0], "dx0": [0.25, 0.25, 0.25]}, {"origin": [1.0, -2.0, 0.5], "dx0": [0.25, 0.5, 0.125]},
        {"origin": [0.0, 0.0, 0.0], "dx0": [0.1, 0.3, 0.7]}, dict(scope.FAR), dict(scope.MICRO)]
TIMES = [1.6457727058794072e-11, 0.0, 2.0, 0.5]


def more_meshes():
    """thorough: level-0 tilings of a 2x2x1 block grid x fine box sets"""
    ms = []
    blocks = (2, 2, 1)
    dom = [4, 4, 2]
    for t in scope.level0_tilings(blocks, 3):
        l0 = [[list(lo), list(hi)] for lo, hi in t]
        ms.append({"domain": dom, "levels": [l0]})
        fines = scope.fine_box_sets(t, [8, 8, 4], 4, 2, maxsize=8)
        for fs in fines[::5]:
            ms.append({"domain": dom, "levels": [l0, [[list(lo), list(hi)] for lo, hi in fs]]})
    return ms


def cases(tier, seed):
    out = []
    k = seed
    allm = meshes() + (more_meshes() if tier == "thorough" else [])
    for mi, mesh in enumerate(allm):
        nlev = len(mesh["levels"])
        # layouts: every layout of the state subset on the level with most boxes; named classes for gradp / I_R
        lvmax = max(range(nlev), key=lambda l: len(mesh["levels"][l]))
        nb = len(mesh["levels"][lvmax])
        Ls = scope.layouts(nb, 'idrev') if nb > 1 else [None]
        named = [Ls[0], Ls[-1], Ls[len(Ls) // 2]] if nb > 1 else [None]
        if mi >= 3:          # generated meshes: named layouts only
            Ls = named
        for li, lay in enumerate(Ls):
            for gi, gl in enumerate(named):
                if (tier == "quick" or mi >= 3) and gi and li % 3:
                    continue
                k += 1
                lays = {"state": [None] * nlev, "gradp": [None] * nlev, "I_R": [None] * nlev}
                lays["state"][lvmax] = lay
                lays["gradp"][lvmax] = gl
                lays["I_R"][lvmax] = named[(gi + 1) % len(named)]
                d = dict(mesh)
                d.update(GEOS[(k // 3) % 5])     # (factors rotate with different periods so that they do not correlate)
                d.update({"layouts": lays, "ghost": 1 + k % 3, "nspecies": 1 + (k // 2) % 3, "time": TIMES[(k // 5) % 4],
                          "seed": seed, "int_line": False})
                opts = []
                for gp, rx, fl in itertools.product([True, False], repeat=3):
                    if (tier == "quick" or mi >= 3) and (li + gi) and (gp, rx, fl) not in ((True, False, True), (False, True, False), (True, True, True)):
                        continue
                    opts.append([gp, rx, fl])
                out.append({"desc": d, "opts": opts, "source": ["list", "ref_Y", "ref_IR"][k % 3],
                            "schedules": (li in (0, len(Ls) - 1) and gi == 0) or (tier == "thorough" and mi < 3), "w": len(opts) * nlev,
                            "default_output": li == 0 and gi == 0})
    # the product of the factors that the cases above only rotate, on the three hand-made meshes with three layout classes of the
    # state subset: thorough = ghost width x species count x geometry x time x species source x every option triple;
    # quick = ghost width x species count x species source (geometry and time rotate), three option triples
    for mi, mesh in enumerate(meshes()):
        nlev = len(mesh["levels"])
        lvmax = max(range(nlev), key=lambda l: len(mesh["levels"][l]))
        nb = len(mesh["levels"][lvmax])
        Ls = scope.layouts(nb, 'idrev') if nb > 1 else [None]
        named = [Ls[0], Ls[-1], Ls[len(Ls) // 2]] if nb > 1 else [None]
        for li, lay in enumerate(named):
            if tier == "thorough":
                prod = itertools.product([1, 2, 3], [1, 2, 3], range(5), range(4), ["list", "ref_Y", "ref_IR"])
            else:
                prod = ((g_, n_, (g_ + 2 * n_ + si_ + li + seed) % 5, (g_ + n_ + 3 * si_ + mi + seed) % 4, s_)
                        for g_, n_, (si_, s_) in itertools.product([1, 2, 3], [1, 2, 3], enumerate(["list", "ref_Y", "ref_IR"])))
            for ghost, nsp, gi, ti, src in prod:
                lays = {"state": [None] * nlev, "gradp": [None] * nlev, "I_R": [None] * nlev}
                lays["state"][lvmax] = lay
                lays["gradp"][lvmax] = named[(li + 1) % len(named)]
                lays["I_R"][lvmax] = named[(li + 2) % len(named)]
                d = dict(mesh)
                d.update(GEOS[gi])
                d.update({"layouts": lays, "ghost": ghost, "nspecies": nsp, "time": TIMES[ti], "seed": seed, "int_line": False})
                if tier == "thorough":
                    opts = [list(o) for o in itertools.product([True, False], repeat=3)]
                else:
                    opts = [[True, False, True], [False, True, False], [True, True, True]]
                out.append({"desc": d, "opts": opts, "source": src, "schedules": False, "w": len(opts) * nlev})
    # histories: two or three conversions in one process whose checkpoints differ in species count, ghost width and mesh
    def hist_case(mi, nsp, ghost, opts, source="list"):
        d = dict(meshes()[mi])
        d.update(GEOS[1])
        d.update({"ghost": ghost, "nspecies": nsp, "time": 0.5, "seed": seed, "int_line": False})
        return {"desc": d, "opts": opts, "source": source, "schedules": False}
    ON, OFF = [True, True, True], [False, False, False]
    for chain in ([(0, 3, 1), (1, 1, 2)], [(0, 1, 2), (1, 3, 1)], [(1, 2, 1), (0, 3, 3)], [(0, 3, 1), (1, 1, 2), (0, 2, 1)], [(1, 1, 3), (1, 3, 3)]):
        for src in ("list", "ref_Y"):
            hs = [hist_case(mi, nsp, gh, [ON, OFF], src) for mi, nsp, gh in chain]
            last = dict(hs[-1])
            last["before"] = hs[:-1]
            last["w"] = 4 * len(hs)
            out.append(last)
    # the optional integer line before the time
    d = dict(meshes()[1])
    d.update(GEOS[1])
    d.update({"int_line": True, "time": 0.25, "seed": seed, "nspecies": 2, "ghost": 2})
    out.append({"desc": d, "opts": [[True, False, True]], "source": "list", "schedules": False})
    # species sums that have drifted from one by a few 1e-6 (flooring exists for exactly this)
    d = dict(meshes()[2])
    d.update(GEOS[1])
    d.update({"layouts": {"state": [None, {"files": [[1], [0]], "nums": [0, 1]}, None], "gradp": [None] * 3, "I_R": [None] * 3},
              "ghost": 2, "nspecies": 3, "time": 0.5, "seed": seed, "int_line": False, "ysum": "drift"})
    out.append({"desc": d, "opts": [[True, False, True], [False, True, True], [True, True, False]], "source": "list", "schedules": False, "w": 6})
    # state / gradp / I_R files whose numbers have gaps or do not start at 0 (ranks without boxes on a level)
    d = dict(meshes()[1])
    d.update(GEOS[2])
    d.update({"layouts": {"state": [{"files": [[0], [1]], "nums": [1, 3]}, {"files": [[0, 2], [1]], "nums": [2, 5]}],
                          "gradp": [{"files": [[1], [0]], "nums": [4, 0]}, None],
                          "I_R": [None, {"files": [[2], [1], [0]], "nums": [1, 7, 3]}]},
              "ghost": 2, "nspecies": 2, "time": 0.5, "seed": seed, "int_line": False})
    out.append({"desc": d, "opts": [[True, True, True], [False, False, False]], "source": "list", "schedules": True, "w": 8, "default_output": True})
    # 27 + 20 boxes over five files per data subset, each subset scattered differently
    m = scope.many_box_mesh()
    d = {"domain": m["domain"], "levels": m["levels"]}
    d.update(GEOS[1])
    d.update({"layouts": {"state": [scope.scattered_layout(27, 5), scope.scattered_layout(20, 3)],
                          "gradp": [scope.scattered_layout(27, 4), None], "I_R": [None, scope.scattered_layout(20, 5)]},
              "ghost": 1, "nspecies": 2, "time": 0.5, "seed": seed, "int_line": False})
    out.append({"desc": d, "opts": [[True, True, True], [False, False, False]], "source": "list", "schedules": False, "w": 20})
    # three boxes of 64 x 64 x 60 cells in ONE state file (more than 32 MiB: byte offsets beyond 2^24 and 2^25, which single precision
    # cannot represent), reactions as the last plotfile field
    d = {"domain": [192, 64, 60], "levels": [[[[0, 0, 0], [63, 63, 59]], [[64, 0, 0], [127, 63, 59]], [[128, 0, 0], [191, 63, 59]]]]}
    d.update(GEOS[0])
    d.update({"layouts": {"state": [{"files": [[1, 2, 0]], "nums": [0]}], "gradp": [None], "I_R": [None]},
              "ghost": 1, "nspecies": 2, "time": 0.5, "seed": seed, "int_line": False})
    out.append({"desc": d, "opts": [[True, True, False]], "source": "list", "schedules": False, "w": 60})
    # seven levels towards the far corner, three species (ten state components): FAB header lines longer than 100 bytes
    m = scope.deep_corner_mesh()
    d = {"domain": m["domain"], "levels": m["levels"]}
    d.update(GEOS[1])
    L2 = scope.layouts(2, 'idrev')
    d.update({"layouts": {"state": [None, L2[-1], None, L2[1], None, L2[2], L2[-1]], "gradp": [L2[1]] * 7, "I_R": [None] * 7},
              "ghost": 2, "nspecies": 3, "time": 0.5, "seed": seed, "int_line": False})
    out.append({"desc": d, "opts": [[True, True, True], [False, False, False]], "source": "ref_Y", "schedules": False, "w": 20})
    return out


def run_case(case, workdir):
    cls = sys.modules.get("amr_kitchen.chk2plt.chk2plt")
    if cls is None:
        import amr_kitchen
        cls = sys.modules["amr_kitchen.chk2plt.chk2plt"]
    chk2plt = cls.chk2plt
    rec = Rec()
    # conversions that happen earlier IN THE SAME PROCESS (a converter must not remember the checkpoint before)
    for i, prev in enumerate(case.get("before", [])):
        wd = os.path.join(workdir, "before%d" % i)
        os.makedirs(wd)
        _convert_and_check(prev, wd, rec, chk2plt)
        shutil.rmtree(wd, ignore_errors=True)
    _convert_and_check(case, workdir, rec, chk2plt)
    return rec.result()


def _convert_and_check(case, workdir, rec, chk2plt):
    desc = case["desc"]
    chk = os.path.join(workdir, "chk00005")
    d, interior = chkmodel.write_checkpoint(desc, chk)
    dh = h64(desc)
    ns = d["nspecies"]
    # (names with nested parentheses are real: CH2(S) is in DRM19 and in the repository's own example plotfile)
    species = (["CH2(S)", "O2", "C(S)"] if (d.get("ghost", 1) + ns) % 2 else ["H2", "O2", "N2"])[:ns]
    ref_plt = None
    if case["source"] != "list":
        pre = "Y" if case["source"] == "ref_Y" else "I_R"
        rd = {"ndims": 3, "domain": [4, 4, 4], "levels": [[[[0, 0, 0], [3, 3, 3]]]],
              "fields": ["density"] + ["%s(%s)" % (pre, s) for s in species] + ["temp"]}
        ref_plt = os.path.join(workdir, "pltref")
        write_plotfile(rd, ref_plt)
        shutil.rmtree(os.path.join(ref_plt, "Level_0"))     # header-only reference
    before = audit.snapshot(chk)
    k = 0
    for gp, rx, fl in case["opts"]:
        exp = chkmodel.expected_plot(d, interior, species, gradp=gp, reactions=rx, floor=fl)
        ys, ye = 4, 4 + ns

        def cmp(lv, b, got, want):
            if got.shape != want.shape:
                return "shape %s != %s" % (got.shape, want.shape)
            if fl:
                other = [c for c in range(want.shape[-1]) if not (ys <= c < ye)]
                if not np.array_equal(got[..., other].view(np.uint64) if False else np.ascontiguousarray(got[..., other]).view(np.uint64),
                                      np.ascontiguousarray(want[..., other]).view(np.uint64)):
                    return "non-species components differ from the checkpoint interior"
                if not np.all(np.abs(got[..., ys:ye] - want[..., ys:ye]) <= 4 * EPS * np.abs(want[..., ys:ye])):
                    return "floored mass fractions differ from Y/sum(Y)"
                if not np.all(np.abs(np.sum(got[..., ys:ye], axis=-1) - 1.0) <= 4 * EPS * ns):
                    return "floored mass fractions do not sum to one"
                return None
            if not np.array_equal(np.ascontiguousarray(got).view(np.uint64), np.ascontiguousarray(want).view(np.uint64)):
                bad = sorted(set(int(x[-1]) for x in np.argwhere(got != want)))
                return "values differ from the checkpoint interior, components %s" % bad
            return None

        def run(plan):
            nonlocal k
            k += 1
            out = os.path.join(workdir, "out%d" % k)
            with vpool.controlled(plan) as ctl:
                with audit.recording() as ev:
                    # (the switches as a caller may hold them: built-in bools, NumPy bools - the result of a comparison - or 0 / 1)
                    sp_ = [lambda v: v, lambda v: np.bool_(v), lambda v: int(v)][(k + d.get("ghost", 1)) % 3]
                    r = call(lambda: chk2plt(chk, target_plotfile=ref_plt, species=species if ref_plt is None else None,
                                             gradp=sp_(gp), species_reactions=sp_(rx), floor_massfracs=sp_(fl), pltdir=out))
            return ctl, (r, out, list(ev))
        runs = explorer.explore(run, bound=1) if case["schedules"] else [({},) + run({})]
        digests = set()
        for plan, ctl, ((st, val), out, ev) in runs:
            sub = {"gradp": gp, "reactions": rx, "flooring": fl, "species_source": case["source"], "plan": explorer.plan_json(plan)}
            nontriv = len(d["levels"]) > 1 or len(d["levels"][0]) > 1 or (gp, rx, fl) != (True, False, True)
            rec.exe([dh, sub], nontrivial=nontriv, trans=1 + sum(c["n"] for c in ctl.calls))
            if st == "exc":
                rec.fail("raised", sub, exc_text(val))
                continue
            pp = oracle.parse_output(rec, sub, out)
            if pp is not None:
                oracle.compare_contents(rec, sub, pp, exp, data_cmp=cmp)
                oracle.taste_accepts(rec, sub, out, coords=True)
                from ..refmodel import tree_digest
                digests.add(tree_digest(out))
            for e, p in ev:
                if audit.inside(p, chk):
                    rec.fail("wrote_into_checkpoint", sub, "%s %s" % (e, p))
                    break
            shutil.rmtree(out, ignore_errors=True)
        if len(digests) > 1:
            rec.fail("schedule_dependent", {"gradp": gp, "reactions": rx, "flooring": fl}, "%d distinct output trees" % len(digests))
        rec.outcome(h64([dh, gp, rx, fl, sorted(digests)]))
    # the command line entry point must write what the API writes (its three switches DISABLE gradp / ENABLE reactions / DISABLE flooring)
    import amr_kitchen.chk2plt.cli as ccli
    from ..common import run_cli
    from ..refmodel import tree_digest as _td
    for gp, rx, fl in case["opts"]:
        o1, o2 = os.path.join(workdir, "cli_plt"), os.path.join(workdir, "api_plt")
        if ref_plt is not None:
            src_args, api_kw = ["-p", ref_plt], {"target_plotfile": ref_plt, "species": None}
        else:
            src_args, api_kw = ["-s"] + [str(i + 1) for i in range(ns)], {"target_plotfile": None, "species": [i + 1 for i in range(ns)]}
        argv = ["chk2plt", "-c", chk, "-o", o1] + src_args + ([] if gp else ["-ip"]) + (["-ir"] if rx else []) + ([] if fl else ["-f"])
        with vpool.controlled():
            st, val = run_cli(ccli.main, argv)
            st2, val2 = call(lambda: chk2plt(chk, gradp=gp, species_reactions=rx, floor_massfracs=fl, pltdir=o2, **api_kw))
        rec.exe([dh, "cli", gp, rx, fl], nontrivial=True)
        if st != "ok":
            rec.fail("cli_failed", {"argv": argv}, "%s %s" % (st, val))
        elif st2 == "ok" and _td(o1) != _td(o2):
            rec.fail("cli_differs_from_api", {"argv": argv}, "the chk2plt command wrote another tree than chk2plt(...)")
        shutil.rmtree(o1, ignore_errors=True)
        shutil.rmtree(o2, ignore_errors=True)
    if audit.snapshot(chk) != before:
        rec.fail("checkpoint_modified", {}, "")
    if case.get("default_output"):
        default_output_step(rec, case, workdir, chk, chk2plt, dh, dict(api_kw))
    rec.sample({"desc": desc, "species_source": case["source"], "options": case["opts"][:2], "conversions_before": len(case.get("before", []))})


DEFAULT_SPELLINGS = ["plain", "slash", "slashdot", "relative_dotslash", "symlink_latest", "renamed_restart", "cwd_dot", "renamed_with_plt"]


def default_output_step(rec, case, workdir, chk, chk2plt, dh, api_kw):
    """no output directory given: whatever name the tool picks, it is a NEW directory outside the checkpoint holding the
    same tree as with an explicit output directory, for every way of naming the checkpoint (its own name may lack the
    'chk' prefix: a renamed checkpoint, a 'latest' symlink, '.' from inside it)"""
    from ..refmodel import tree_digest
    gp, rx, fl = case["opts"][0]
    kw = dict(api_kw, gradp=gp, species_reactions=rx, floor_massfracs=fl)
    refout = os.path.join(workdir, "dflt_ref")
    with vpool.controlled():
        st, val = call(lambda: chk2plt(chk, pltdir=refout, **kw))
    if st != "ok":
        return
    want = tree_digest(refout)
    shutil.rmtree(refout)
    cwd0 = os.getcwd()
    for sp in DEFAULT_SPELLINGS:
        box = os.path.join(workdir, "dflt_" + sp)
        os.makedirs(box)
        name = {"renamed_restart": "restart_a", "renamed_with_plt": "plt_from_run3"}.get(sp, "chk00007")
        real = os.path.join(box, "store", name) if sp == "symlink_latest" else os.path.join(box, name)
        shutil.copytree(chk, real)
        arg, cwd = real, box
        if sp == "slash":
            arg = real + "/"
        elif sp == "slashdot":
            arg = real + "/."
        elif sp == "relative_dotslash":
            arg = "./" + name
        elif sp == "symlink_latest":
            os.symlink(os.path.join("store", name), os.path.join(box, "latest"))
            arg = os.path.join(box, "latest")
        elif sp == "cwd_dot":
            arg, cwd = ".", real
        real = os.path.realpath(real)
        before = audit.snapshot(real)
        had = set(os.path.join(dp, x) for dp, dn, fn in os.walk(box) for x in dn)
        os.chdir(cwd)
        try:
            with vpool.controlled():
                with audit.recording() as ev:
                    st, val = call(lambda: chk2plt(arg, **kw))
        finally:
            os.chdir(cwd0)
        sub = {"default_output": sp, "checkpoint_argument": arg if not arg.startswith(workdir) else arg[len(workdir):]}
        rec.exe([dh, "default_output", sp], nontrivial=True)
        wrote_in = [(e, p_) for e, p_ in ev if audit.inside(p_, real)]
        if wrote_in or audit.snapshot(real) != before:
            rec.fail("wrote_into_checkpoint", sub, "%s" % (wrote_in[:1] or "checkpoint tree changed"))
        elif st == "exc":
            # (declining to guess a name is not writing into the checkpoint; but the statement says a plotfile is written)
            rec.fail("raised", sub, exc_text(val))
        else:
            new = [d_ for d_ in (os.path.join(dp, x) for dp, dn, fn in os.walk(box) for x in dn)
                   if d_ not in had and os.path.isfile(os.path.join(d_, "Header")) and not audit.inside(os.path.realpath(d_), real)]
            if len(new) != 1:
                rec.fail("default_output_missing", sub, "%d new plotfile directories outside the checkpoint" % len(new))
            elif tree_digest(new[0]) != want:
                rec.fail("default_output_differs", sub, "the default output directory %s holds another tree than an explicit one" % os.path.relpath(new[0], box))
        shutil.rmtree(box, ignore_errors=True)


def _sig_integral_time(case, fail):
    t = case["desc"].get("time")
    return (not case["desc"].get("int_line")) and float(t) == int(t) and fail["clause"] in ("raised", "time", "output_unparsable", "output_invalid")


SIGNATURES = {"integral_time_taken_for_optional_int_line": _sig_integral_time}
