"""C09 - pestle integrates every point of the domain exactly once."""
import os
import re
import sys
import io
import numpy as np
from .. import scope, vpool
from ..common import build, call, exc_text
from ..runner import Rec, h64
from .c02 import chain_mesh

PROPERTY = "C09"
LEVEL = "model_checking"
RULE = ("case = generated 3D plotfile (level-0 guillotine tilings with 2/4-cell boxes, a fine box at EVERY even-aligned "
        "offset and size, pairs of fine boxes, 1..4 levels, the 16/24-cell template, anisotropic cells, positive and "
        "sign-alternating payloads, volFrac present/absent); execution = volume_integral(pck, field, limit, use_volfrac) "
        "with the limit given through the reader or through the argument, or the pestle CLI; compared with the reference sum "
        "over uncovered cells (relative bound 64 eps sum|v dV|); non-trivial = at least two levels selected")
ASSUMPTIONS = ["boxes aligned on an even blocking factor (2 cells)", "controlled in-process pool"]
EPS = np.finfo(float).eps


def bounds(tier):
    return {"levels": [1, 2, 3, 4], "fine_boxes": "every box with corners on multiples of 2 fine cells (singles; pairs on a 4-cell grid)",
            "limit": "None, 0..finest via reader and via argument / CLI", "volfrac": [False, True]}


def template_16_24():
    return {"ndims": 3, "domain": [40, 16, 16],
            "levels": [[[[0, 0, 0], [15, 15, 15]], [[16, 0, 0], [39, 15, 15]]],
                       [[[24, 0, 0], [39, 15, 15]], [[40, 8, 8], [63, 23, 31]]]]}


def meshes(tier):
    ms = []
    blocks = (2, 2, 1)
    dom = [b * 2 for b in blocks]
    til = scope.level0_tilings(blocks, 2 if tier == "quick" else 3)
    for ti, t in enumerate(til):
        base = {"ndims": 3, "domain": dom, "levels": [[[list(lo), list(hi)] for lo, hi in t]]}
        ms.append(base)
        singles = scope.fine_box_sets(t, [2 * a for a in dom], 2, 1)
        for fs in singles:
            m = dict(base)
            m["levels"] = base["levels"] + [[[list(lo), list(hi)] for lo, hi in fs]]
            ms.append(m)
        if ti == 0 or tier == "thorough":
            pairs = [p for p in scope.fine_box_sets(t, [2 * a for a in dom], 4 if tier == "quick" else 2, 2,
                                                    maxsize=6) if len(p) == 2]
            for fs in pairs[:: (1 if tier == "quick" else 7)]:
                m = dict(base)
                m["levels"] = base["levels"] + [[[list(lo), list(hi)] for lo, hi in fs]]
                ms.append(m)
    # all extents >= 4 cells with offsets that are multiples of 2 only (occupancy resolution)
    for t in scope.level0_tilings((2, 1, 1), 2, bs=4):
        base = {"ndims": 3, "domain": [8, 4, 4], "levels": [[[list(lo), list(hi)] for lo, hi in t]]}
        for fs in scope.fine_box_sets(t, [16, 8, 8], 2, 1, minsize=4)[:: (1 if tier == "thorough" else 5)]:
            m = dict(base)
            m["levels"] = base["levels"] + [[[list(lo), list(hi)] for lo, hi in fs]]
            ms.append(m)
    ms.append(chain_mesh(3, 3))
    ms.append(chain_mesh(3, 4))
    ms += scope.named_meshes(3)[1:]
    ms.append(template_16_24())
    return ms


def cases(tier, seed):
    out = []
    geos = [{"origin": [0.0, 0.0, 0.0], "dx0": [0.25, 0.5, 0.125]}, {"origin": [1.0, -2.0, 0.5], "dx0": [0.1, 0.3, 0.7]}]
    for mi, mesh in enumerate(meshes(tier)):
        nlev = len(mesh["levels"])
        big = mesh["domain"][0] > 16
        d = dict(mesh)
        d.update(geos[(mi + seed) % 2])
        lay = [scope.layouts(len(b), 'idrev')[-1 if (mi % 2) else 0] if len(b) <= 3 else None for b in mesh["levels"]]
        if mi % 3 == 0:
            # sibling fields whose names start like / contain the volume fraction's
            flds, pay = ["volFrac_smooth", "vfrac", "temp", "volFrac", "density", "xvolFrac"], ["one", "pos", "pos", "frac", "signed", "coded"]
        elif mi % 3 == 1:
            flds, pay = ["temp", "volFrac", "density"], ["pos", "frac", "signed"]
            if mi % 2:          # the volume fraction as component 0 (an index that is falsy)
                flds, pay = ["volFrac", "temp", "density"], ["frac", "pos", "signed"]
        else:
            flds, pay = ["temp", "density"], ["pos", "signed"]
        d.update({"fields": flds, "payload": pay, "layout": lay, "seed": seed})
        out.append({"desc": d, "cli": mi % 5 == 0 or big, "w": 20 if big else nlev})
        if nlev >= 2 and not big and mi % 4 == 1:
            out.append({"desc": d, "poison_covered": True, "w": 1})
    # level directories named otherwise than Level_k
    m_ = scope.named_meshes(3)[2]
    d = dict(m_)
    d.update(geos[seed % 2])
    d.update({"fields": ["temp", "volFrac", "density"], "payload": ["pos", "frac", "signed"], "levelprefix": "Lev_",
              "layout": [scope.layouts(len(b), 'idrev')[-1] for b in m_["levels"]], "seed": seed})
    out.append({"desc": d, "cli": True, "w": 10})
    # 27 + 20 boxes scattered over five / three files
    d = dict(scope.many_box_mesh())
    d.update(geos[(seed + 1) % 2])
    d.update({"fields": ["temp", "volFrac", "density"], "payload": ["pos", "frac", "signed"],
              "layout": [scope.scattered_layout(27, 5), scope.scattered_layout(20, 3)], "seed": seed})
    out.append({"desc": d, "cli": True, "w": 30})
    # seven levels towards the far corner, twelve fields (volFrac among them): FAB header lines longer than 100 bytes
    d = dict(scope.deep_corner_mesh())
    d.update(geos[seed % 2])
    L2 = scope.layouts(2, 'idrev')
    d.update({"fields": ["temp", "volFrac", "density"] + ["p%d" % i for i in range(9)], "payload": ["pos", "frac", "signed"] + ["coded"] * 9,
              "layout": [None, L2[-1], None, L2[1], None, L2[2], L2[-1]], "seed": seed})
    out.append({"desc": d, "cli": True, "w": 30})
    return out


def run_cli(argv, workdir):
    import amr_kitchen.pestle.cli as cli
    old = sys.argv, sys.stdout
    sys.argv = argv
    buf = io.StringIO()
    sys.stdout = buf
    try:
        with vpool.controlled():
            try:
                cli.main()
                st = ("ok", None)
            except SystemExit as e:
                st = ("exit", e.code)
            except Exception as e:
                st = ("exc", e)
    finally:
        sys.argv, sys.stdout = old
    m = re.search(r"Volume integral of .* in plotfile: (\S+) ", buf.getvalue())
    return st, (float(m.group(1)) if m else None)


def run_case(case, workdir):
    from amr_kitchen import PlotfileCooker
    from amr_kitchen.pestle import volume_integral
    rec = Rec()
    desc = case["desc"]
    if case.get("poison_covered"):
        # covered cells do not contribute: fill them with inf / -inf / NaN (field temp), the reference stays finite
        from ..refmodel import refplot_from_desc, write_plotfile
        ref = refplot_from_desc(desc)
        ti = desc["fields"].index("temp")
        for lv in range(ref.nlevels - 1):
            for b, a in enumerate(ref.data[lv]):
                m = ref.covered_mask(lv, b, ref.nlevels - 1)
                vals = np.array([np.inf, -np.inf, np.nan])[np.arange(int(m.sum())) % 3]
                a[..., ti][m] = vals
        path = os.path.join(workdir, "plt00000")
        write_plotfile(desc, path, ref=ref)
    else:
        path, ref = build(desc, workdir)
    dh = h64([desc, bool(case.get("poison_covered"))])
    nlev = ref.nlevels
    has_vf = "volFrac" in desc["fields"]
    if case.get("poison_covered"):
        # limits below the finest level expose the poisoned cells legitimately: only the full-depth integral is demanded
        exp, mag = ref.integral("temp", nlev - 1, None)
        with vpool.controlled():
            st, val = call(lambda: volume_integral(PlotfileCooker(path, ghost=True), "temp"))
        rec.exe([dh, "poison_covered"], nontrivial=nlev > 1)
        if st == "exc":
            rec.fail("raised", {"covered_cells": "inf/-inf/nan"}, exc_text(val))
        elif not (abs(float(val) - exp) <= 64 * EPS * mag + 1e-300):
            rec.fail("integral", {"covered_cells": "inf/-inf/nan"}, "returned %r, sum over uncovered cells %r" % (float(val), exp))
        return rec.result()
    # history on ONE reader object: limits in a non-monotone order
    if nlev >= 2:
        with vpool.controlled():
            pck1 = PlotfileCooker(path, ghost=True)
            seq = [None, 0, nlev - 1, 0, None] if nlev == 2 else [None, 1, 0, nlev - 1, 1, None]
            for k, lim in enumerate(seq):
                L = nlev - 1 if lim is None else lim
                exp, mag = ref.integral("temp", L, None)
                st, val = call(lambda: volume_integral(pck1, "temp", limit_level=lim))
                rec.exe([dh, "history", k], nontrivial=True)
                sub = {"history": "volume_integral calls on one PlotfileCooker with limits %r" % (seq,), "call": k, "limit_level": lim}
                if st == "exc":
                    rec.fail("history_raised", sub, exc_text(val))
                elif not (abs(float(val) - exp) <= 64 * EPS * mag + 1e-300):
                    rec.fail("history_dependent", sub, "call %d returned %r, sum over uncovered cells %r" % (k, float(val), exp))
    for field in ("temp", "density"):
        for use_vf in (False, True):
            for limit in [None] + list(range(nlev)):
                L = nlev - 1 if limit is None else limit
                exp, mag = ref.integral(field, L, "volFrac" if (use_vf and has_vf) else None)
                tol = 64 * EPS * mag + 1e-300
                ways = [("reader", limit, None)]
                if limit is not None:
                    ways.append(("argument", None, limit))
                for way, rl, al in ways:
                    sub = {"field": field, "use_volfrac": use_vf, "limit_level": limit, "limit_given_to": way}
                    with vpool.controlled() as ctl:
                        st, val = call(lambda: volume_integral(PlotfileCooker(path, limit_level=rl, ghost=True), field,
                                                               limit_level=al, use_volfrac=use_vf))
                    rec.exe([dh, sub], nontrivial=L >= 1, trans=1 + sum(c["n"] for c in ctl.calls))
                    if st == "exc":
                        rec.fail("raised", sub, exc_text(val))
                    elif not (abs(float(val) - exp) <= tol):
                        rec.fail("integral", sub, "returned %r, sum over uncovered cells %r (tolerance %.3g)" % (float(val), exp, tol))
                if case["cli"]:
                    argv = ["pestle", "--variable", field] + (["--limit_level", str(limit)] if limit is not None else []) \
                        + (["--volfrac"] if use_vf else []) + [path]
                    sub = {"argv": argv}
                    st, val = run_cli(argv, workdir)
                    rec.exe([dh, sub], nontrivial=L >= 1)
                    if st[0] != "ok" or val is None:
                        rec.fail("cli_failed", sub, "%r" % (st,))
                    elif not (abs(val - exp) <= tol + 1e-15):
                        rec.fail("cli_integral", sub, "printed %r, sum over uncovered cells %r" % (val, exp))
    # LAST: a reader that is kept (opened with the per-box minima / maxima of the level headers, as marinate pickles it) while
    # another time step of the same run is written over the plotfile in place; a field that is uniform in every box of the FIRST
    # step - the integral is over what the plotfile holds now
    from ..refmodel import write_plotfile as _wp
    import shutil as _sh
    dA = dict(desc, fields=["u", "temp"], payload=["one", "signed"])
    dB = dict(dA, seed=desc.get("seed", 0) + 778, payload=["signed", "pos"])
    pA = os.path.join(workdir, "plt_kept_reader")
    _wp(dA, pA)
    refB = _wp(dB, os.path.join(workdir, "plt_next_step"))
    with vpool.controlled():
        st, val = call(lambda: PlotfileCooker(pA, ghost=True, maxmins=True))
    if st != "exc":
        old_reader = val
        for root_, dirs_, files_ in os.walk(os.path.join(workdir, "plt_next_step")):
            for fn_ in files_:
                src_ = os.path.join(root_, fn_)
                with open(src_, "rb") as fi, open(os.path.join(pA, os.path.relpath(src_, os.path.join(workdir, "plt_next_step"))), "wb") as fo:
                    fo.write(fi.read())
        for field in ("u", "temp"):
            for lim in (None, 0):
                L = nlev - 1 if lim is None else lim
                exp, mag = refB.integral(field, L, None)
                with vpool.controlled():
                    st, val = call(lambda: volume_integral(old_reader, field, limit_level=lim))
                rec.exe([dh, "time_step_replaced", field, lim], nontrivial=True, trans=2)
                sub = {"history": "reader opened (with min / max tables), then another time step written over the plotfile in place", "field": field, "limit_level": lim}
                if st == "exc":
                    rec.fail("history_raised", sub, exc_text(val))
                elif not (abs(float(val) - exp) <= 64 * EPS * mag + 1e-300):
                    rec.fail("history_dependent", sub, "returned %r, the plotfile now integrates to %r" % (float(val), exp))
    rec.sample({"desc": desc, "ops": "volume_integral x field x volfrac x limit (reader / argument / CLI)"})
    return rec.result()


SIGNATURES = {}
