"""C20 - whatever taste accepts, the reader can read completely and consistently."""
from . import c04

PROPERTY = "C20"
LEVEL = "fault_enumeration"
RULE = ("same mutant space as C04 plus byte-level edits (offset text 007/+7/tabs, FAB header blanks / precision descriptor / "
        "damaged prefix, trailing whitespace in Cell_H and Header); execution = Taster(mutant, nofail) then, when it "
        "accepts, pck[:][lv][b] for every box of every validated level: must read, have the shape the level header "
        "declares x nfields, and equal the payload of a FAB of its file whose header names that range; non-trivial = "
        "mutant accepted by validation (only those carry a demand)")
ASSUMPTIONS = list(c04.ASSUMPTIONS)
CASE_TIMEOUT = 900


def bounds(tier):
    b = c04.bounds(tier)
    b["textual_edits"] = True
    return b


def cases(tier, seed):
    return c04.cases(tier, seed, textual=True)


def run_case(case, workdir):
    return c04.run_case(case, workdir, mode="C20")


SIGNATURES = {}
