"""C10 - whip's uniform grid is the covering grid of the chosen field."""
import os
import sys
import numpy as np
from .. import scope, vpool, explorer
from ..common import build, call, exc_text
from ..runner import Rec, h64

PATHFORMS = False      # (the command line is given the relative name plt00000)
PROPERTY = "C10"
LEVEL = "model_checking"
RULE = ("case = generated 3D plotfile (1..3 levels, every layout of one deviating level); execution = whip.cli.main() with "
        "sys.argv (field x dtype x --limit_level x -o / default output) under one schedule of each level's imap_unordered "
        "(all completion orders of <= 4 per-file tasks x lazy|eager, deviation bound 1); the saved .npy must equal the "
        "reference covering grid cast to dtype, bit for bit, axes (x,y,z); non-trivial = more than one level or file")
ASSUMPTIONS = ["entry point driven in-process with sys.argv and cwd = scratch directory", "dtype in {float64, float32}"]


def bounds(tier):
    return {"levels": [1, 2, 3], "dtype": ["float64", "float32"], "limit_level": "absent, 0..finest",
            "schedules": "all completion orders x lazy|eager of each level's imap_unordered, <= 4 files"}


def meshes(tier):
    ms = list(scope.named_meshes(3))
    blocks = (2, 2, 1)
    dom = [b * 2 for b in blocks]
    for t in scope.level0_tilings(blocks, 3):
        base = {"ndims": 3, "domain": dom, "levels": [[[list(lo), list(hi)] for lo, hi in t]]}
        fines = scope.fine_box_sets(t, [2 * a for a in dom], 4, 2, maxsize=8)
        step = 1 if tier == "thorough" else max(1, len(fines) // 3)
        for fs in fines[::step]:
            m = dict(base)
            m["levels"] = base["levels"] + [[[list(lo), list(hi)] for lo, hi in fs]]
            ms.append(m)
    return ms


def cases(tier, seed):
    out = []
    geos = scope.rotate(list(scope.geometries(3)), seed)
    for mi, mesh in enumerate(meshes(tier)):
        nlev = len(mesh["levels"])
        lays = [[None] * nlev]
        for lv in range(nlev):
            nb = len(mesh["levels"][lv])
            if 2 <= nb <= 3:
                L = scope.layouts(nb, 'idrev')
                nonmono = [l for l in L if any(len(f) > 1 and f != sorted(f) for f in l["files"])]
                for lay in (L[1:] if tier == "thorough" else [L[-1], L[len(L) // 2], L[-2], nonmono[0], nonmono[-1]]):
                    v = [None] * nlev
                    v[lv] = lay
                    lays.append(v)
        for li, lay in enumerate(lays):
            d = dict(mesh)
            d.update(geos[(mi + li) % len(geos)])
            d.update({"fields": ["temp", "density", "Z"], "layout": lay, "seed": seed,
                      "payload": "hostile" if li % 3 == 1 else (["coded", "signed", "zerofine"] if li % 3 == 2 else "coded")})
            out.append({"desc": d, "w": nlev * (1 + max(len(l["files"]) if l else 1 for l in lay))})
    # level directories named otherwise than Level_k; a plotfile that was marinated before (a pickle sits beside it)
    m = scope.named_meshes(3)[2]
    for extra in ({"levelprefix": "Lev_"}, {"marinated": True}, {"decoy": True}):
        d = dict(m)
        d.update(geos[1])
        d.update({"fields": ["temp", "density", "Z"], "layout": [scope.layouts(len(b), 'idrev')[-1] for b in m["levels"]], "seed": seed, "payload": "signed"})
        d.update({k_: v_ for k_, v_ in extra.items() if k_ in ("levelprefix", "decoy")})
        out.append({"desc": d, "w": 12, "marinated": bool(extra.get("marinated"))})
    # field names that differ only by letter case
    m = scope.named_meshes(3)[1]
    d = dict(m)
    d.update(geos[0])
    d.update({"fields": list(scope.CASE_FIELDS), "layout": [None, scope.layouts(2, 'idrev')[-1]], "seed": seed, "payload": "coded"})
    out.append({"desc": d, "w": 12})
    # 27 + 20 boxes in nine / eight binary files, read with 1, 3 and 16 workers (the number of CPUs is visible to the code)
    d = dict(scope.many_box_mesh())
    d.update(geos[2])
    d.update({"fields": ["temp", "density", "Z"], "seed": seed, "payload": ["coded", "signed", "pos"],
              "layout": [scope.scattered_layout(27, 9), scope.scattered_layout(20, 8)]})
    out.append({"desc": d, "w": 30, "many": True})
    # a long channel: 73728 cells along z on level 0 (more than 2^16), nine boxes of 8192 cells in three files, a refined patch at
    # the far end (cell indices beyond 65535 and 131071)
    l0 = [[[0, 0, 8192 * i], [1, 1, 8192 * i + 8191]] for i in range(9)]
    l1 = [[[0, 0, 147448], [3, 3, 147455]], [[0, 0, 131072], [1, 1, 131079]]]
    d = {"ndims": 3, "domain": [2, 2, 73728], "levels": [l0, l1]}
    d.update(geos[0])
    d.update({"fields": ["temp", "density"], "seed": seed, "payload": ["coded", "signed"],
              "layout": [{"files": [[8, 0, 3], [1, 4, 7], [2, 5, 6]], "nums": [2, 0, 1]}, scope.layouts(2, 'idrev')[-1]]})
    out.append({"desc": d, "w": 40, "long": True})
    # ONE level-0 box of 36 x 24 x 24 cells under three finer levels: replicated eight times in every direction it fills a grid of
    # 288 x 192 x 192 cells (more than 2^23; 36 is no power of two)
    d = {"ndims": 3, "domain": [36, 24, 24], "levels": [[[[0, 0, 0], [35, 23, 23]]], [[[2, 2, 2], [5, 5, 5]]], [[[6, 6, 6], [9, 9, 9]]], [[[14, 14, 14], [17, 17, 17]]]]}
    d.update(geos[0])
    d.update({"fields": ["temp"], "seed": seed, "payload": "coded", "layout": [None] * 4})
    out.append({"desc": d, "w": 60, "big": True})
    # FAB header lines longer than 100 bytes (finest of 7 levels in the far corner, 12 fields): one field, the
    # finest grid only (1024 x 128 x 128), identity schedule
    d = dict(scope.deep_corner_mesh())
    d.update(geos[1])
    d.update({"fields": ["f%d" % i for i in range(12)], "seed": seed, "payload": ["coded", "signed", "pos"] * 4,
              "layout": [None, scope.layouts(2, 'idrev')[-1], None, scope.layouts(2, 'idrev')[1], None, None, scope.layouts(2, 'idrev')[-1]]})
    out.append({"desc": d, "w": 60, "deep": True})
    return out


def bits(a):
    a = np.ascontiguousarray(a)
    return a.view(np.uint64 if a.dtype == np.float64 else np.uint32)


def run_case(case, workdir):
    import amr_kitchen.whip.cli as whip
    rec = Rec()
    desc = case["desc"]
    path, ref = build(desc, workdir)
    dh = h64(desc)
    names = desc["fields"]
    os.chdir(workdir)
    if case.get("marinated"):
        import amr_kitchen.marinate as marinate
        old_ = sys.argv
        sys.argv = ["marinate", "plt00000"]
        try:
            with vpool.controlled():
                marinate.main()
        finally:
            sys.argv = old_
    k = 0
    deep = bool(case.get("deep"))
    for limit in ([None, 1] if deep else ([None, 2] if case.get("big") else [None] + list(range(ref.nlevels)))):
        L = ref.nlevels - 1 if limit is None else limit
        cov = None if deep else ref.covering(limit=L)
        for fi, field in enumerate(names):
            if deep and fi != 10:
                continue
            if deep:
                one = ref.strain([field]).covering(limit=L)[..., 0]
            # (the VALUE of --dtype: NumPy's other spellings of the two types for the first field without a limit)
            for dtype in (("float32",) if case.get("big") else ("float64", "float32") + (("float", "double", "single", "f4", "<f8") if (fi == 0 and limit is None and not deep) else ())):
                if deep and dtype != ("float32" if limit is None else "float64"):
                    continue
                if fi > 0 and dtype == "float32" and limit is not None:
                    continue
                for default_out in ((False, True) if (fi == 0 and limit is None and dtype in ("float64", "float32")) else (False,)):
                    k += 1
                    outfile = os.path.join(workdir, "grid%d.npy" % k)
                    argv = ["whip", "-v", field, "-d", dtype, "-y"]
                    if limit is not None:
                        argv += ["-l", str(limit)]
                    if default_out:
                        outfile = os.path.join(workdir, "%s_ugrid_00000.npy" % field)
                    else:
                        argv += ["-o", outfile]
                    argv.append("plt00000")
                    exp = (one if deep else cov[..., fi]).astype(dtype)

                    def run(plan, nw=None):
                        if os.path.exists(outfile):
                            os.remove(outfile)
                        old = sys.argv
                        sys.argv = argv
                        import unittest.mock
                        import contextlib
                        cpus = contextlib.ExitStack()
                        if nw is not None:
                            cpus.enter_context(unittest.mock.patch("os.cpu_count", return_value=nw))
                            cpus.enter_context(unittest.mock.patch("multiprocessing.cpu_count", return_value=nw))
                        try:
                            with cpus, vpool.controlled(plan, nworkers=nw) as ctl:
                                r = call(whip.main)
                        except SystemExit as e:
                            r = ("exc", e)
                        finally:
                            sys.argv = old
                        if r[0] == "ok":
                            try:
                                r = ("ok", np.load(outfile))
                            except Exception as e:
                                r = ("exc", e)
                        return ctl, r
                    outs = set()
                    runs_ = explorer.explore(run, bound=0 if deep else 1)
                    if case.get("many"):
                        runs_ = [({"workers": nw_},) + run({}, nw_) for nw_ in (1, 3, 16)]
                    if case.get("long") or case.get("big"):
                        runs_ = [({},) + run({})]
                    for plan, ctl, (st, val) in runs_:
                        sub = {"argv": argv, "plan": explorer.plan_json(plan) if "workers" not in plan else plan}
                        rec.exe([dh, sub], nontrivial=(ref.nlevels > 1 or max(c["n"] for c in ctl.calls) > 1),
                                trans=1 + sum(c["n"] for c in ctl.calls))
                        if st == "exc":
                            rec.fail("raised", sub, exc_text(val))
                            continue
                        if val.dtype != np.dtype(dtype):
                            rec.fail("dtype", sub, "%s" % val.dtype)
                            continue
                        if val.shape != exp.shape:
                            rec.fail("shape", sub, "grid shape %s, expected %s%s" % (val.shape, exp.shape,
                                     " (--limit_level ignored)" if limit is not None else ""))
                            continue
                        if not np.array_equal(bits(val), bits(exp)):
                            nz = int(np.count_nonzero(val))
                            rec.fail("values", sub, "grid differs from the covering grid (%d non-zero cells of %d)" % (nz, val.size))
                        outs.add(bits(val).tobytes())
                        rec.outcome(h64([dh, argv[1:], hash(bits(val).tobytes())]))
                    if len(outs) > 1:
                        rec.fail("schedule_dependent", {"argv": argv}, "%d distinct outputs over schedules" % len(outs))
    # history: a run that FAILS part-way (a binary file of the finest level is not there yet - a plotfile still being copied), then
    # the same request again, and another field to the same output, once the plotfile is complete: whatever the failed run left
    # behind must not reach the later grids
    if ref.nlevels >= 2 and not deep and not case.get("many") and not case.get("long") and not case.get("big"):
        from ..refmodel import ParsedPlot
        lvdir = os.path.join(path, "%s%d" % (desc.get("levelprefix", "Level_"), ref.nlevels - 1))
        victim = sorted(set(ParsedPlot(path).levels[ref.nlevels - 1].files))[-1]        # (a file that the level header lists)
        outfile = os.path.join(workdir, "retry.npy")

        def whip_once(field):
            old = sys.argv
            sys.argv = ["whip", "-v", field, "-y", "-o", outfile, "plt00000"]
            try:
                with vpool.controlled():
                    r = call(whip.main)
            except SystemExit as e:
                r = ("exc", e)
            finally:
                sys.argv = old
            return r
        os.rename(os.path.join(lvdir, victim), os.path.join(workdir, "victim.aside"))
        r1 = whip_once(names[0])
        os.rename(os.path.join(workdir, "victim.aside"), os.path.join(lvdir, victim))
        rec.exe([dh, "retry", "failing_run"], nontrivial=True)
        if r1[0] != "exc":
            rec.fail("failure_not_reported", {"history": "finest-level binary file missing"}, "whip ended normally")
        cov_ = ref.covering(limit=ref.nlevels - 1)
        for fi_ in (0, len(names) - 1):
            r2 = whip_once(names[fi_])
            rec.exe([dh, "retry", "after_failure", fi_], nontrivial=True, trans=2)
            sub = {"history": "an earlier run to the same output failed part-way (a binary file was missing)", "field": names[fi_]}
            if r2[0] == "exc":
                rec.fail("raised", sub, exc_text(r2[1]))
                continue
            try:
                got = np.load(outfile)
            except Exception as e:
                rec.fail("raised", sub, exc_text(e))
                continue
            if got.shape != cov_[..., fi_].shape or not np.array_equal(bits(got), bits(cov_[..., fi_])):
                rec.fail("history_dependent", sub, "the grid written after the failed run differs from the covering grid")
    rec.sample({"desc": desc, "argv": ["whip", "-v", "temp", "-d", "float32", "-y", "-l", "0", "-o", "grid.npy", "plt00000"]})
    return rec.result()


SIGNATURES = {}
