"""C12 - results do not depend on worker count, task order or serial/parallel mode."""
import os
import io
import sys
import shutil
import zlib
import itertools
import numpy as np
from .. import scope, vpool, explorer, audit, chkmodel
from ..common import build, call, exc_text, poisoned
from ..refmodel import tree_digest
from ..runner import Rec, h64

PATHFORMS = False      # (this check spells its input paths itself)
PROPERTY = "C12"
LEVEL = "model_checking"
RULE = ("case = one pooled tool configuration (reader selections / iteration / on-demand iterator, taste incl. binary_data, "
        "colander, combine in byfile and bybox modes, chef, mandoline 2D / 3D array and plotfile, pestle, whip, chk2plt) on a "
        "generated input whose levels hold 2..4 tasks per pool call with different data per task; execution = one complete run "
        "under one schedule of the controlled pool: every permutation of the tasks of one pool call (= execution and completion "
        "order; the union over worker counts 1..16 for <= 4 tasks) x lazy|eager result consumption, deviation bound 1 (2 "
        "thorough) over the pool calls of the run; observation = (return value bits, output tree bytes, exception); all "
        "schedules must give ONE observation, equal to the serial mode where one exists; per-task read/write path sets must be "
        "pairwise independent (justifies task-atomic interleavings); the free-running real pool's observation must be among the "
        "explored ones; non-trivial = non-identity schedules")
ASSUMPTIONS = ["pool semantics of CPython 3.12 multiprocessing.pool / pathos 0.3.5 as modelled in kv/vpool.py, bound to the real pools by the free-running pass",
               "> 4 tasks per call: all permutations of every 4-subset moved to the front (reported as capped)",
               "tasks are separate processes communicating through files and results only; their independence is asserted from audited path sets"]
CASE_TIMEOUT = 1800


def bounds(tier):
    return {"tasks_per_call": "2..4", "deviation_bound": 1 if tier == "quick" else 2, "modes": ["lazy", "eager"],
            "tools": sorted(TOOLS)}


# box -> file layouts of the 3D input: variant 0 = three files per level, numbers out of order; variant 1 = level 0 in ONE file
# in non-monotone on-disk order, every level-1 box in its own file (four per-file tasks); variant 2 = two files per level, a
# gap in the numbering, the first listed box last on disk
LAYOUTS3 = [[{"files": [[1], [0], [2]], "nums": [2, 0, 1]}, {"files": [[3, 0], [1], [2]], "nums": [0, 1, 2]}],
            [{"files": [[2, 0, 1]], "nums": [0]}, {"files": [[2], [0], [3], [1]], "nums": [3, 1, 2, 0]}],
            [{"files": [[1, 2], [0]], "nums": [2, 4]}, {"files": [[1, 3], [2, 0]], "nums": [2, 0]}]]


def mesh3(variant=0):
    return {"ndims": 3, "domain": [4, 4, 2],
            "levels": [[[[2, 0, 0], [3, 1, 1]], [[0, 0, 0], [1, 3, 1]], [[2, 2, 0], [3, 3, 1]]],      # (small boxes before large ones)
                       [[[0, 6, 0], [1, 7, 1]], [[2, 2, 0], [5, 5, 3]], [[6, 0, 2], [7, 1, 3]], [[0, 0, 0], [1, 1, 1]]]],
            "fields": ["temp", "density", "Z"], "payload": ["signed", "signed", "boxcancel"],
            "layout": LAYOUTS3[variant]}


def mesh2():
    return {"ndims": 2, "domain": [4, 6], "levels": [[[[0, 0], [3, 1]], [[0, 2], [3, 5]]],
                                                     [[[2, 2], [5, 5]], [[0, 8], [3, 11]], [[6, 0], [7, 3]]]],
            "fields": ["temp", "density", "Z"], "payload": "signed",
            "layout": [{"files": [[1], [0]], "nums": [0, 1]}, {"files": [[2], [0, 1]], "nums": [0, 1]}]}


RECIPE = '''def recipe(field_indexes, box_array):
    """
    mix
    """
    return box_array[:, :, :, field_indexes["temp"]] * 2.0 + box_array[:, :, :, field_indexes["density"]]
'''


def adig(x):
    """digest of a return value"""
    if isinstance(x, np.ndarray):
        return [str(x.dtype), list(x.shape), zlib.crc32(np.ascontiguousarray(x).tobytes())]
    if isinstance(x, (list, tuple)):
        return [adig(a) for a in x]
    if isinstance(x, dict):
        return {str(k): adig(v) for k, v in sorted(x.items(), key=lambda kv: str(kv[0]))}
    if isinstance(x, (float, np.floating)):
        return float(x).hex()
    if isinstance(x, (int, str, bool, type(None), np.integer)):
        return x if not isinstance(x, np.integer) else int(x)
    return repr(type(x))


# ---- tool drivers: fn(env, out, serial) -> return value (observation also includes the tree under `out`) ------------
def t_reader_slice(env, out, serial):
    from amr_kitchen import PlotfileCooker
    pck = PlotfileCooker(env["p3"])
    if serial:
        # the serial counterpart of a multi-box selection: the same boxes read one by one in the calling process
        return [[pck[:][1][b] for b in range(4)], [pck["density"][0][b] for b in (2, 0)], [pck[[0, 2]][1][b] for b in (0, 2, 3)],
                [pck["temp"][1][b] for b in (1, 3, 0)], [pck[0:2][1][b] for b in (2, 3)], [pck[1:3][1][b] for b in (2, 1)], [pck[1:3][1][b] for b in (1, 2)],
                [pck[[0, 1]][1][b] for b in (0, 2, 3)], [pck[[1, 2]][0][b] for b in range(3)]]
    # (an index list that is a 3-cycle; partial field slices read box by box in the calling process BEFORE the pooled read;
    # lists of consecutive fields, whose serial results are all held while the next box is read)
    return [pck[:][1][:], pck["density"][0][[2, 0]], pck[[0, 2]][1][[True, False, True, True]], pck["temp"][1][[1, 3, 0]],
            [pck[0:2][1][2], pck[0:2][1][3]], [pck[1:3][1][2], pck[1:3][1][1]], pck[1:3][1][1:3],
            pck[[0, 1]][1][[True, False, True, True]], pck[[1, 2]][0][:3]]


def t_reader_reread(env, out, serial):
    """the caller edits the arrays it was given in place and asks for the same boxes again: serial (integer selections)
    and pooled (two-box lists) answers must both be what is on disk"""
    from amr_kitchen import PlotfileCooker
    pck = PlotfileCooker(env["p3"])
    res = []
    for f, lv in (("temp", 1), (slice(0, 2), 0), ([0, 2], 1)):
        for b in (0, 2, 1):
            first = pck[f][lv][b] if serial else pck[f][lv][[b, (b + 1) % 3]][0]
            first[...] = -1.5e88
            res.append(pck[f][lv][b] if serial else pck[f][lv][[b, (b + 1) % 3]][0])
    return res


def t_reader_iter(env, out, serial):
    from amr_kitchen import PlotfileCooker
    pck = PlotfileCooker(env["p3"])
    # (the ORDER in which a level iteration yields its boxes is unspecified by C15, but it is a returned value: C12 wants it
    # to be the same for every worker count and schedule)
    return [list(pck[1:][1]), list(pck["temp"][1].iter([3, 1, 0])), list(pck[:][0].iter(slice(None))), list(pck["density"][0])]


def t_taste(env, out, serial):
    from amr_kitchen.taste import Taster
    return bool(Taster(env["p3"], binary_data=True, boxes_coordinates=True, verbose=0))


def t_taste_bad(env, out, serial):
    from amr_kitchen.taste import Taster
    return bool(Taster(env["p3bad"], nofail=True, verbose=0))


def t_colander(env, out, serial):
    from amr_kitchen.colander import Colander
    Colander(plotfile=env["p3"], limit_level=None, output=out, variables=["Z", "temp"]).strain()


def t_colander2d(env, out, serial):
    from amr_kitchen.colander import Colander
    Colander(plotfile=env["p2"], limit_level=None, output=out, variables=["density"]).strain()


def t_combine_byfile(env, out, serial):
    from amr_kitchen import PlotfileCooker
    fn = sys.modules["amr_kitchen.combine.combine"].combine
    fn(PlotfileCooker(env["p3"]), PlotfileCooker(env["p3same"]), pltout=out)


def t_combine_bybox(env, out, serial):
    from amr_kitchen import PlotfileCooker
    fn = sys.modules["amr_kitchen.combine.combine"].combine
    fn(PlotfileCooker(env["p3"]), PlotfileCooker(env["p3other"]), pltout=out, vars2=["Zvar"])


def t_chef(env, out, serial):
    from amr_kitchen.chef import Chef
    Chef(env["p3"], recipe=env["recipe"], outfile=out, serial=serial, kept_fields="Z").cook()


def t_chef_cantera(env, out, serial):
    from amr_kitchen.chef import Chef
    from . import c11
    Chef(env["pthermo"], recipe="SRi", species=["O2", "H2"], outfile=out, mech=c11.MECH, pressure=2.0, serial=serial, kept_fields="temp").cook()


def t_chef_cantera_nan(env, out, serial):
    """a NaN temperature in one cell: whatever the tool does with it (refuse, or write something), it does the same in
    serial and in parallel mode and under every schedule (a refusal is compared by its exception type only, its partial
    output is removed)"""
    from amr_kitchen.chef import Chef
    from . import c11
    try:
        Chef(env["pthermo_nan"], recipe="ENT", outfile=out, mech=c11.MECH, pressure=1.0, serial=serial, kept_fields="temp").cook()
    except Exception as e:
        shutil.rmtree(out, ignore_errors=True)
        return ["refused", type(e).__name__]
    return ["cooked"]


def t_mandoline3d(env, out, serial):
    from amr_kitchen.mandoline import Mandoline
    with poisoned(["amr_kitchen.mandoline.mandoline"], 0):
        m = Mandoline(env["p3"], fields=["temp", "Z", "grid_level"], serial=serial, verbose=0)
        # two slices on one object: the serial mode runs the tasks on the parent's own arrays
        return [m.slice(normal=2, pos=env["pos3"], fformat="return"), m.slice(normal=0, pos=env["pos3x"], fformat="return"),
                m.slice(normal=0, pos=env["pos3gap"], fformat="return"), m.slice(normal=2, pos=env["pos3"], fformat="return")]


def t_mandoline3d_plt(env, out, serial):
    from amr_kitchen.mandoline import Mandoline
    with poisoned(["amr_kitchen.mandoline.mandoline"], 0):
        Mandoline(env["p3"], fields=["temp", "Z"], serial=serial, verbose=0).slice(normal=0, pos=env["pos3x"], outfile=out, fformat="plotfile")


def t_mandoline3d_far(env, out, serial):
    """a plane that no box of the finest level meets or neighbours: that level has NO task"""
    from amr_kitchen.mandoline import Mandoline
    with poisoned(["amr_kitchen.mandoline.mandoline"], 0):
        m = Mandoline(env["p3half"], fields=["temp", "Z", "grid_level"], serial=serial, verbose=0)
        r = m.slice(normal=1, pos=env["pos3far"], fformat="return")
        m.slice(normal=1, pos=env["pos3far"], outfile=out, fformat="plotfile")
        return [r]


def t_mandoline2d(env, out, serial):
    from amr_kitchen.mandoline import Mandoline
    with poisoned(["amr_kitchen.mandoline.mandoline"], 0):
        m = Mandoline(env["p2"], fields=["all"], serial=serial, verbose=0)
        return [m.slice(fformat="return"), m.slice(fformat="return")]


def t_pestle(env, out, serial):
    from amr_kitchen import PlotfileCooker
    from amr_kitchen.pestle import volume_integral
    return [volume_integral(PlotfileCooker(env["p3"], ghost=True), "temp"),
            volume_integral(PlotfileCooker(env["p3"], ghost=True), "density", limit_level=0),
            volume_integral(PlotfileCooker(env["p3"], ghost=True), "Z"),          # box sums cancel: any regrouping shows
            volume_integral(PlotfileCooker(env["p3"], ghost=True), "Z", limit_level=0)]


def t_whip(env, out, serial):
    import amr_kitchen.whip.cli as m
    old = sys.argv
    sys.argv = ["whip", "-v", "density", "-y", "-o", out + ".npy", env["p3"]]
    try:
        m.main()
    finally:
        sys.argv = old
    return np.load(out + ".npy")


def t_chk2plt(env, out, serial):
    cls = sys.modules["amr_kitchen.chk2plt.chk2plt"].chk2plt
    cls(env["chk"], species=["H2", "O2"], species_reactions=True, pltdir=out)


# name -> (driver, has a serial mode)
TOOLS = {"reader_slice": (t_reader_slice, True), "reader_reread": (t_reader_reread, True), "reader_iter": (t_reader_iter, False), "taste": (t_taste, False),
         "taste_bad": (t_taste_bad, False), "colander": (t_colander, False), "colander2d": (t_colander2d, False),
         "combine_byfile": (t_combine_byfile, False), "combine_bybox": (t_combine_bybox, False), "chef": (t_chef, True),
         "chef_cantera": (t_chef_cantera, True), "chef_cantera_nan": (t_chef_cantera_nan, True),
         "mandoline3d": (t_mandoline3d, True), "mandoline3d_plt": (t_mandoline3d_plt, True), "mandoline3d_far": (t_mandoline3d_far, True),
         "mandoline2d": (t_mandoline2d, True),
         "pestle": (t_pestle, False), "whip": (t_whip, False), "chk2plt": (t_chk2plt, False)}


# tools whose input is the 3D plotfile with the variable layout
P3_TOOLS = ["reader_slice", "reader_reread", "reader_iter", "taste", "taste_bad", "colander", "combine_byfile", "combine_bybox", "chef", "mandoline3d",
            "mandoline3d_plt", "pestle", "whip"]


SPAWN_TOOLS = ["reader_slice", "reader_iter", "taste", "colander", "combine_bybox", "combine_byfile", "mandoline2d", "mandoline3d", "pestle", "whip", "chk2plt"]


def cases(tier, seed):
    out = [{"tool": t, "seed": seed, "bound": bounds(tier)["deviation_bound"], "w": 5 if t in ("taste", "chk2plt", "pestle") else 1}
           for t in sorted(TOOLS)]
    # the other box -> file layouts of the 3D input (quick: deviation bound 1; thorough: 2)
    for v in (1, 2):
        out += [{"tool": t, "variant": v, "seed": seed, "bound": bounds(tier)["deviation_bound"], "w": 5 if t in ("taste", "pestle") else 1}
                for t in P3_TOOLS]
    out.append({"tool": "@chef_history", "seed": seed, "bound": 1, "w": 10})
    out.append({"tool": "@cwd_history", "seed": seed, "bound": 1, "w": 10})
    return out


# ---- two operations in one process with a change of working directory in between (relative paths) -----------------
CWD_TOOLS = ["reader_slice", "reader_iter", "taste", "colander", "colander2d", "combine_bybox", "combine_byfile", "chef", "mandoline3d", "mandoline3d_plt",
             "mandoline2d", "pestle", "whip", "chk2plt"]


def rel_env(env, cwd):
    return {k: (os.path.relpath(v, cwd) if isinstance(v, str) and os.path.isabs(v) else v) for k, v in env.items()}


def cwd_history_envs(workdir, seed):
    envs = []
    for name, sd in (("A", seed), ("B", seed + 7), ("C", seed + 13)):
        d = os.path.join(workdir, "cwd" + name)
        os.makedirs(d)
        # other names in B: a worker that still lives in A's directory must not find B's relative paths there;
        # the SAME names in C as in A, other contents and another box -> file layout: whatever is remembered under a relative
        # path string (or read by a worker that still lives in A) belongs to A
        envs.append((d, make_env(d, sd, tag="b" if name == "B" else "", variant=2 if name == "C" else 0)))
    return envs


def run_cwd_case(case, workdir, rec):
    (da, ea), (db, eb), (dc, ec) = cwd_history_envs(workdir, case["seed"])
    for tool in CWD_TOOLS:
        fresh = {}
        for nm, dd, ee in (("B", db, eb), ("C", dc, ec)):
            os.chdir(dd)
            ctl, ev, dg, obs = observe(tool, rel_env(ee, dd), "out_" + tool, False, {})
            rec.exe(["cwd_history", tool, nm], nontrivial=True)
            rec.outcome("cwdhist%s_%s:%016x" % ("" if nm == "B" else nm, tool, dg))
            fresh[nm] = (dg, obs)
        # in-process: the same operation after another one elsewhere must give the same observation
        os.chdir(da)
        observe(tool, rel_env(ea, da), "out_" + tool, False, {})
        for nm, dd, ee in (("B", db, eb), ("C", dc, ec)):
            os.chdir(dd)
            ctl, ev, dg2, obs2 = observe(tool, rel_env(ee, dd), "out_" + tool, False, {})
            if dg2 != fresh[nm][0]:
                rec.fail("history_dependent", {"tool": tool, "history": "same tool in another directory first (%s), then chdir"
                                               % ("same relative names there" if nm == "C" else "other names there")},
                         "%r vs %r" % (obs2, fresh[nm][1]))
    os.chdir(workdir)
    rec.sample({"history": "chdir(A); tool(relative paths); chdir(B); tool(same relative paths, other content)", "tools": CWD_TOOLS})


# ---- history of two parallel Cantera cooks in one process (pool lifetime) -------------------------------------------
def history_inputs(workdir, seed):
    from . import c11
    from ..refmodel import write_plotfile
    paths = {}
    for name, layout, mesh in (("A", 1, None), ("B", 2, None), ("C", 0, "other_shapes")):
        d = c11.thermo_desc(seed + (0 if name == "A" else 1), layout)
        if mesh:
            d["levels"] = [[[[0, 0, 0], [3, 3, 1]]], [[[0, 0, 0], [1, 1, 3]]]]
            d["layout"] = [None, None]
        ref = c11.thermo_ref(d)
        paths[name] = os.path.join(workdir, "plt_" + name)
        write_plotfile(d, paths[name], ref=ref)
    return paths


def cook(path, out, pressure, serial):
    from amr_kitchen.chef import Chef
    from . import c11
    if os.path.isdir(out):
        shutil.rmtree(out)
    st, val = call(lambda: Chef(path, recipe="SDi", species=["H2"], outfile=out, mech=c11.MECH, pressure=pressure, serial=serial).cook())
    return [st, exc_text(val) if st == "exc" else None, tree_digest(out) if (st == "ok" and os.path.isdir(out)) else None]


HISTORIES = [("B_at_5atm_after_A_at_1atm", "B", 5.0), ("C_new_box_shapes_after_A", "C", 1.0)]


def cook_interleaved(paths, out, second, pressure, serial):
    """two Chefs alive at once: A (1 atm) is constructed, then X (another plotfile and/or pressure) is constructed,
    then A is cooked; the observation is A's output"""
    from amr_kitchen.chef import Chef
    from . import c11
    for o in (out, out + "_x"):
        if os.path.isdir(o):
            shutil.rmtree(o)

    def go():
        a = Chef(paths["A"], recipe="SDi", species=["H2"], outfile=out, mech=c11.MECH, pressure=1.0, serial=serial)
        Chef(paths[second], recipe="SDi", species=["H2"], outfile=out + "_x", mech=c11.MECH, pressure=pressure, serial=serial)
        a.cook()
    st, val = call(go)
    return [st, exc_text(val) if st == "exc" else None, tree_digest(out) if (st == "ok" and os.path.isdir(out)) else None]


def run_history_case(case, workdir, rec):
    paths = history_inputs(workdir, case["seed"])
    out = os.path.join(workdir, "ck")
    for hname, second, pressure in HISTORIES:
        so = sys.stdout
        sys.stdout = io.StringIO()
        try:
            serial = cook(paths[second], out, pressure, True)
            with vpool.controlled():
                cook(paths["A"], out + "A", 1.0, False)
                par = cook(paths[second], out, pressure, False)
        finally:
            sys.stdout = so
        rec.exe(["chef_history", hname], nontrivial=True, trans=2)
        rec.outcome("chef_history_%s:%016x" % (hname, h64(serial)))
        if par != serial:
            rec.fail("history_dependent", {"history": hname}, "second cook differs from its serial result: %r vs %r" % (par, serial))
        # the same pair of Chefs, but both constructed before the first one is cooked
        sys.stdout = io.StringIO()
        try:
            alone = cook(paths["A"], out, 1.0, True)
            inter_s = cook_interleaved(paths, out, second, pressure, True)
            with vpool.controlled():
                inter_p = cook_interleaved(paths, out, second, pressure, False)
        finally:
            sys.stdout = so
        rec.exe(["chef_interleaved", hname], nontrivial=True, trans=2)
        rec.outcome("chef_interleaved_%s:%016x" % (hname, h64(alone)))
        for mode, got in (("serial", inter_s), ("parallel", inter_p)):
            if got != alone:
                rec.fail("history_dependent", {"history": "interleaved_" + hname, "mode": mode},
                         "A cooked after X was constructed differs from A cooked alone: %r vs %r" % (got, alone))
    rec.sample({"history": "Chef(A, 1 atm, parallel).cook(); Chef(X, p, parallel).cook() in one process", "variants": [h[0] for h in HISTORIES]})


def make_env(workdir, seed, tag="", variant=0):
    import amr_kitchen
    env = {}
    d3 = dict(mesh3(variant), seed=seed)
    # (layout variant 1: the process has read boxes of this plotfile before and edited the arrays it was given)
    env["p3"], ref3 = build(d3, workdir, "plt00010" + tag, prehistory=(variant == 1))
    same = dict(d3, fields=["Zvar", "Y(H2)"], seed=seed + 1, payload="coded")
    env["p3same"], _ = build(same, workdir, "plt00011" + tag)
    other = dict(same)
    other["layout"] = [{"files": [[0, 2], [1]], "nums": [0, 1]}, {"files": [[1, 2, 0], [3]], "nums": [1, 0]}]
    env["p3other"], _ = build(other, workdir, "plt00012" + tag)
    env["p2"], _ = build(dict(mesh2(), seed=seed), workdir, "plt00020" + tag)
    # a damaged copy: last file of level 1 truncated
    env["p3bad"] = os.path.join(workdir, "plt00013" + tag)
    shutil.copytree(env["p3"], env["p3bad"])
    victim = os.path.join(env["p3bad"], "Level_1", "Cell_D_%05d" % max(d3["layout"][1]["nums"]))
    with open(victim, "r+b") as f:
        f.truncate(os.path.getsize(victim) - 8)
    from . import c11
    from ..refmodel import write_plotfile
    td = c11.thermo_desc(seed, 2)
    env["pthermo"] = os.path.join(workdir, "plt00030" + tag)
    write_plotfile(td, env["pthermo"], ref=c11.thermo_ref(td))
    refn = c11.thermo_ref(td)
    ti = td["fields"].index("temp")
    refn.data[-1][0][(0,) * 3 + (ti,)] = float("nan")
    refn.data[0][-1][(1,) * 3 + (ti,)] = -5.0
    env["pthermo_nan"] = os.path.join(workdir, "plt00031" + tag)
    write_plotfile(td, env["pthermo_nan"], ref=refn)
    env["recipe"] = os.path.join(workdir, "r.py")
    with open(env["recipe"], "w") as f:
        f.write(RECIPE)
    half = dict(scope.named_meshes(3)[1], fields=["temp", "density", "Z"], payload="signed", seed=seed,
                layout=[{"files": [[1], [0]], "nums": [0, 1]}, {"files": [[1, 0]], "nums": [3]}])
    env["p3half"], refh = build(half, workdir, "plt00014" + tag)
    env["pos3far"] = refh.geo_lo[1] + 0.75 * refh.dx[1][1]        # fine boxes start at y index 2; both level-0 boxes meet the plane
    env["pos3"] = ref3.geo_lo[2] + 1.25 * ref3.dx[1][2]
    env["pos3x"] = ref3.geo_lo[0] + 2.0 * ref3.dx[0][0]
    env["pos3gap"] = ref3.geo_lo[0] + 2.25 * ref3.dx[0][0]       # in the half-cell gap next to a face shared by two level-0 boxes
    cd = {"domain": [4, 4, 4], "levels": [[[[0, 0, 0], [3, 3, 1]], [[0, 0, 2], [3, 3, 3]]], [[[2, 2, 2], [5, 5, 5]], [[0, 0, 0], [1, 1, 3]], [[6, 6, 0], [7, 7, 7]]]],
          "nspecies": 2, "ghost": 2, "seed": seed,
          "layouts": {"state": [{"files": [[1], [0]], "nums": [0, 1]}, {"files": [[1], [2, 0]], "nums": [1, 0]}],
                      "gradp": [None, {"files": [[2], [0], [1]], "nums": [0, 1, 2]}],
                      "I_R": [{"files": [[1, 0]], "nums": [0]}, None]}}
    env["chk"] = os.path.join(workdir, "chk00005" + tag)
    chkmodel.write_checkpoint(cd, env["chk"])
    return env


def observe(tool, env, out, serial, plan=None, controlled=True, nworkers=None):
    fn, has_serial = TOOLS[tool]
    for p in (out, out + ".npy"):
        if os.path.isdir(p):
            shutil.rmtree(p)
        elif os.path.exists(p):
            os.remove(p)
    so = sys.stdout
    sys.stdout = io.StringIO()
    try:
        if controlled:
            with vpool.controlled(plan, nworkers=nworkers) as ctl:
                with audit.recording(reads=True) as ev:
                    st, val = call(lambda: fn(env, out, serial))
        else:
            ctl, ev = None, []
            st, val = call(lambda: fn(env, out, serial))
    finally:
        sys.stdout = so
    tree = tree_digest(out) if os.path.isdir(out) else None
    obs = [st, exc_text(val) if st == "exc" else adig(val), tree]
    return ctl, list(ev), h64(obs), obs


def independence(ctl, ev):
    """pairwise independence of the tasks of each pool call (no task writes what another reads or writes), and of
    parent steps that run while tasks of the call are still outstanding"""
    probs = []
    spans = {}
    for ci, t, a, b in ctl.task_spans:
        spans.setdefault(ci, {})[t] = (a, b)
    for ci, ts in spans.items():
        sets = {}
        for t, (a, b) in ts.items():
            r = set(p for e, p in ev[a:b] if e == "open_r")
            w = set(p for e, p in ev[a:b] if e != "open_r")
            sets[t] = (r, w)
        for t1, t2 in itertools.combinations(sorted(sets), 2):
            r1, w1 = sets[t1]
            r2, w2 = sets[t2]
            c = (w1 & (r2 | w2)) | (w2 & (r1 | w1))
            if c:
                probs.append("call %d: tasks %d and %d conflict on %s" % (ci, t1, t2, sorted(c)[:2]))
        # parent events between the first and the last task of the call, outside any task
        lo = min(a for a, b in ts.values())
        hi = max(b for a, b in ts.values())
        inside = set()
        for a, b in ts.values():
            inside.update(range(a, b))
        done_at = sorted((b, t) for t, (a, b) in ts.items())
        for i in range(lo, hi):
            if i in inside:
                continue
            e, p = ev[i]
            if e == "open_r":
                continue
            for t, (a, b) in ts.items():
                if a >= i:       # task t has not started yet: it runs concurrently with this parent step in a real pool
                    r, w = sets[t]
                    if p in r or p in w:
                        probs.append("call %d: parent writes %s while task %d is outstanding" % (ci, p, t))
    return probs


def run_case(case, workdir):
    rec = Rec()
    tool = case["tool"]
    if tool == "@chef_history":
        run_history_case(case, workdir, rec)
        return rec.result()
    if tool == "@cwd_history":
        run_cwd_case(case, workdir, rec)
        return rec.result()
    variant = case.get("variant", 0)
    env = make_env(workdir, case["seed"], variant=variant)
    fn, has_serial = TOOLS[tool]
    out = os.path.join(workdir, "out_" + tool)
    seen = {}

    def run(plan):
        ctl, ev, dg, obs = observe(tool, env, out, False, plan)
        return ctl, (ev, dg, obs)
    n = 0
    for plan, ctl, (ev, dg, obs) in explorer.explore(run, bound=case["bound"]):
        n += 1
        ident = not plan
        sub = {"tool": tool, "plan": explorer.plan_json(plan)}
        rec.exe([tool, variant, explorer.plan_json(plan)], nontrivial=not ident, trans=sum(c["n"] for c in ctl.calls))
        rec.outcome("%s%s:%016x" % (tool, "@%d" % variant if variant else "", dg))
        seen.setdefault(dg, (explorer.plan_json(plan), obs))
        if ident:
            base = dg
            rec.count("pool_calls", len(ctl.calls))
            rec.count("max_tasks_per_call", 0)
            if max([c["n"] for c in ctl.calls] or [0]) < 2:
                raise RuntimeError("harness: %s has no pool call with >= 2 tasks (vacuous)" % tool)
        elif dg != base:
            rec.fail("schedule_dependent", sub, "observation differs from the identity schedule: %r vs %r" % (obs, seen[base][1]))
        for p in independence(ctl, ev):
            rec.fail("tasks_not_independent", sub, p)
            break
        # determinism of the harness: replay the same schedule
        if n % 7 == 1:
            ctl2, ev2, dg2, obs2 = observe(tool, env, out, False, plan)
            if dg2 != dg:
                # pools, schedules and the process are the harness's (fresh fork per chunk): what is left is state that the code
                # under test carried over from the first run - the result depends on something else than inputs and schedule
                rec.fail("history_dependent", dict(sub, history="the same operation repeated in one process under the same schedule"),
                         "%r vs %r" % (obs2, obs))
    # the size of the pool is visible to the code (Pool()._processes, os.cpu_count()): 1, 2, 3 and 5 workers
    import unittest.mock
    for nw in (1, 2, 3, 5):
        with unittest.mock.patch("os.cpu_count", return_value=nw), unittest.mock.patch("multiprocessing.cpu_count", return_value=nw):
            ctl, ev, dg, obs = observe(tool, env, out, False, {}, nworkers=nw)
        rec.exe([tool, variant, "workers", nw], nontrivial=True, trans=sum(c["n"] for c in ctl.calls))
        if dg != base:
            rec.fail("worker_count_dependent", {"tool": tool, "workers": nw}, "%r vs %r with the default pool size" % (obs, seen[base][1]))
    if has_serial:
        ctl, ev, dg, obs = observe(tool, env, out, True, {})
        rec.exe([tool, variant, "serial"], nontrivial=True)
        if dg != base:
            rec.fail("serial_differs_from_parallel", {"tool": tool}, "%r vs %r" % (obs, seen[base][1]))
    rec.sample({"tool": tool, "layout_variant": variant, "schedules": n, "distinct_observations": len(seen)})
    return rec.result()


def parent_pass(tier, seed, workdir):
    """free-running conformance of the pool model: the real pools' observation must be among the explored ones.
    Runs in the (non-daemonic) parent process, where no pool is substituted."""
    import amr_kitchen
    res = []
    # (1) history of two parallel Cantera cooks under the REAL pathos pool (workers live as long as the process)
    paths = history_inputs(workdir, seed)
    for hname, second, pressure in HISTORIES:
        _reset_pathos()
        cook(paths["A"], os.path.join(workdir, "hA"), 1.0, False)
        par = cook(paths[second], os.path.join(workdir, "hX"), pressure, False)
        res.append({"outcome": "chef_history_%s:%016x" % (hname, h64(par)), "what": "chef history %s under the real pathos pool" % hname,
                    "obs": repr(par)[:200]})
        _reset_pathos()
        inter = cook_interleaved(paths, os.path.join(workdir, "hI"), second, pressure, False)
        res.append({"outcome": "chef_interleaved_%s:%016x" % (hname, h64(inter)),
                    "what": "A cooked after %s was constructed, under the real pathos pool" % second, "obs": repr(inter)[:200]})
    _reset_pathos()
    # (1b) two operations with a change of working directory in between, relative paths, REAL pools
    # (a pool that outlives the first operation keeps its workers' working directory)
    (da, ea), (db, eb), (dc, ec) = cwd_history_envs(workdir, seed)
    for tool in CWD_TOOLS:
        os.chdir(da)
        observe(tool, rel_env(ea, da), "out_" + tool, False, None, controlled=False)
        os.chdir(db)
        ctl, ev, dg, obs = observe(tool, rel_env(eb, db), "out_" + tool, False, None, controlled=False)
        res.append({"outcome": "cwdhist_%s:%016x" % (tool, dg), "what": "%s after the same tool in another working directory (real pools)" % tool,
                    "obs": repr(obs)[:200]})
        os.chdir(dc)
        ctl, ev, dg, obs = observe(tool, rel_env(ec, dc), "out_" + tool, False, None, controlled=False)
        res.append({"outcome": "cwdhistC_%s:%016x" % (tool, dg), "what": "%s after the same tool in another working directory that holds the same relative names (real pools)" % tool,
                    "obs": repr(obs)[:200]})
    os.chdir(workdir)
    _reset_pathos()
    # (2) every tool once under the real pools
    env = make_env(workdir, seed)
    for tool in sorted(TOOLS):
        out = os.path.join(workdir, "free_" + tool)
        for rep in range(2):
            ctl, ev, dg, obs = observe(tool, env, out, False, None, controlled=False)
            res.append({"outcome": "%s:%016x" % (tool, dg), "what": "real pool run %d of %s" % (rep, tool), "obs": repr(obs)[:200]})
    # (3) the same tools under the SPAWN start method (macOS / Windows default, a caller's set_start_method): the workers do not
    # inherit the parent's memory, they import the package afresh and see only what a task carries
    import multiprocessing as _mp
    import unittest.mock as _mock
    _mp.set_start_method("spawn", force=True)
    try:
        with _mock.patch("os.cpu_count", return_value=2), _mock.patch("multiprocessing.cpu_count", return_value=2):
            for tool in SPAWN_TOOLS:
                ctl, ev, dg, obs = observe(tool, env, os.path.join(workdir, "spawn_" + tool), False, None, controlled=False)
                res.append({"outcome": "%s:%016x" % (tool, dg), "what": "%s under the spawn start method (real pool, 2 workers)" % tool, "obs": repr(obs)[:200]})
    finally:
        _mp.set_start_method("fork", force=True)
    for v in (1, 2):
        wv = os.path.join(workdir, "variant%d" % v)
        os.makedirs(wv)
        env = make_env(wv, seed, variant=v)
        for tool in P3_TOOLS:
            ctl, ev, dg, obs = observe(tool, env, os.path.join(wv, "free_" + tool), False, None, controlled=False)
            res.append({"outcome": "%s@%d:%016x" % (tool, v, dg), "what": "real pool run of %s, layout variant %d" % (tool, v), "obs": repr(obs)[:200]})
    return res


def _reset_pathos():
    try:
        from pathos.multiprocessing import ProcessingPool
        ProcessingPool().clear()
    except Exception:
        pass


def _sig_pathos(case, fail):
    return fail["clause"] == "real_pool_outcome_not_explored" and fail["sub"].get("what", "").startswith("chef history ")


SIGNATURES = {"pathos_workers_outlive_the_cook": _sig_pathos}
