"""C15 - level iteration yields every box exactly once, whatever the schedule."""
import itertools
import zlib
import numpy as np
from .. import scope, selectors as S, vpool, explorer
from ..common import build, call, exc_text
from ..refmodel import bits_equal
from ..runner import Rec, h64
from . import c01

PROPERTY = "C15"
LEVEL = "model_checking"
RULE = ("case = generated plotfile (C01 universe: every layout of one deviating level); execution = one "
        "complete iteration list(pck[f][lv]) or list(pck[f][lv].iter(sel)) under one schedule "
        "(permutation of the per-file / per-box tasks x lazy|eager result consumption) compared as a "
        "multiset (resp. sequence) of bit patterns with the reference boxes; non-trivial = more than one "
        "task and a non-identity schedule or a multi-file layout")
ASSUMPTIONS = ["tasks are atomic (they only read files; independence is checked in C12)",
               "<= 4 tasks per pool call explored over all n! orders x {lazy, eager}; beyond that every order of every 4-subset moved to the front "
               "(levels with more than 8 boxes: 3-subsets of six positions)"]


def bounds(tier):
    return {"tasks_per_call": 4, "deviation_bound": 1 if tier == "quick" else 2, "modes": ["lazy", "eager"],
            "field_forms": ["name", "int", "slice from 1", "slice all", "list", "name list"]}


def cases(tier, seed):
    out = []
    src = c01.cases("quick", seed)
    if tier == "thorough":
        # the thorough tier of C01 is far too large to combine with schedule exploration: take its plotfiles with
        # a deviating layout on the named meshes and tilings only
        src = src + [c for c in c01.cases("thorough", seed) if c["desc"]["payload"] == "coded" and len(c["desc"]["fields"]) in (2, 4)
                     and c.get("devlevel") is not None][::7]
    for c in src:
        d = c["desc"]
        special = min(min(h - l for l, h in zip(lo, hi)) for lv in d["levels"] for lo, hi in lv) == 0 or d["domain"][0] > 1000
        if tier == "quick" and special and (c.get("devlevel") is not None or len(d["fields"]) != 3):
            continue        # boxes one cell thick / six-digit indices: default layouts only in the quick tier
        if d["payload"] != "coded" and tier == "quick" and not c.get("deep"):
            continue
        if len(d["fields"]) not in ((2, 3) if tier == "quick" else (1, 2, 3, 4)) and not c.get("deep") and not (c.get("names_case") and d["ndims"] == 3):
            continue
        lay = d["layout"]
        dev = c.get("devlevel")
        nfiles = max(len(l["files"]) if l else 1 for l in lay)
        out.append({"desc": d, "devlevel": dev, "w": min(1 + nfiles ** 3, 400), "bound": 2 if (tier == "thorough" and nfiles <= 3) else 1})
    return out


def field_forms(names):
    """(tag, numpy index, class): class A must be exact, class B (negative / unsorted / strided) exact or an exception"""
    return [f + ("A",) for f in field_forms_a(names)] + field_forms_b(names)


def field_forms_b(names):
    n = len(names)
    forms = [(["int", -1], n - 1, "B")]
    if n >= 2:
        forms += [(["list", [n - 1, 0]], [n - 1, 0], "B"), (["names", [names[n - 1], names[0]]], [n - 1, 0], "B"),
                  (["slice", None, None, 2], slice(None, None, 2), "B"), (["list", [0, 0]], [0, 0], "B")]
    if n >= 3:
        forms += [(["list", [1, 2, 0]], [1, 2, 0], "B"), (["list", [0, 2, 1]], [0, 2, 1], "B"), (["slice", -2, None, None], slice(-2, None), "B"),
                  # ends of a consecutive run around a repeated / permuted interior
                  (["list", [0, 0, 2]], [0, 0, 2], "B"), (["list", [0, 2, 2]], [0, 2, 2], "B")]
    if n >= 4:
        forms += [(["list", [0, 2, 1, 3]], [0, 2, 1, 3], "B"), (["names", [names[0], names[2], names[1], names[3]]], [0, 2, 1, 3], "B")]
    return forms


def field_forms_a(names):
    n = len(names)
    forms = [(["name", names[0]], 0), (["int", n - 1], n - 1), (["slice", None, None, None], slice(None))]
    if n >= 2:
        forms += [(["slice", 1, None, None], slice(1, None)), (["list", [0, n - 1]], [0, n - 1]),
                  (["names", [names[0], names[n - 1]]], [0, n - 1])]
    if n >= 3:
        forms += [(["list", [1, 2]], [1, 2]), (["slice", 1, 2, None], slice(1, 2))]
    return forms


def multiset(arrs):
    return sorted((a.shape, np.ascontiguousarray(a).tobytes()) for a in arrs)


def run_case(case, workdir):
    from amr_kitchen import PlotfileCooker
    rec = Rec()
    desc = case["desc"]
    path, ref = build(desc, workdir)
    dh = h64(desc)
    with vpool.controlled():
        pck = PlotfileCooker(path)
    names = c01.reader_names(desc["fields"])
    levels = range(ref.nlevels) if case.get("devlevel") is None else [case["devlevel"]]
    for lv in levels:
        nb = len(ref.boxes[lv])
        for ftag, fidx, fcls in (field_forms(names) if nb <= 8 else [f for f in field_forms(names) if f[0] in (["name", names[0]], ["slice", 1, None, None], ["list", [1, 2, 0]])]):
            exp_boxes = [ref.data[lv][b][..., fidx] for b in range(nb)]
            exp_ms = multiset(exp_boxes)

            def run_iter(plan):
                with vpool.controlled(plan) as ctl:
                    def go():
                        it = iter(pck[S.decode(ftag)][lv])
                        return list(itertools.islice(it, nb + 3))
                    return ctl, call(go)
            for plan, ctl, (st, val) in explorer.explore(run_iter, bound=case.get("bound", 1), max_tasks=(2 if nb > 64 else 3) if nb > 8 else explorer.MAX_TASKS):
                ntasks = max([c["n"] for c in ctl.calls] or [0])
                nontriv = ntasks > 1
                rec.exe([dh, "iter", ftag, lv, explorer.plan_json(plan)], nontrivial=nontriv,
                        trans=sum(c["n"] for c in ctl.calls))
                sub = {"op": "iter", "field": ftag, "level": lv, "plan": explorer.plan_json(plan)}
                if st == "exc":
                    if fcls == "A":
                        rec.fail("iter_raised", sub, exc_text(val))
                    continue
                rec.outcome(h64([dh, ftag, lv, [zlib.crc32(m[1]) for m in multiset(val)]]))
                if len(val) != nb:
                    rec.fail("iter_count", sub, "yielded %d boxes, level has %d" % (len(val), nb))
                elif not all(isinstance(v, np.ndarray) for v in val) or multiset(val) != exp_ms:
                    rec.fail("iter_values", sub, "yielded boxes are not the stored boxes (as a multiset)")
            # environment: the interpreter's warning filter is "error" (python -W error, a strict test runner, a host
            # application): a complete iteration or a loud failure are both fine - an iteration that ENDS NORMALLY must
            # still have yielded every box once
            if fcls == "A":
                import warnings as _w
                with _w.catch_warnings():
                    _w.simplefilter("error")
                    ctl, (st, val) = run_iter({})
                rec.exe([dh, "iter_warnings_as_errors", ftag, lv], nontrivial=True, trans=sum(c["n"] for c in ctl.calls))
                if st != "exc" and (len(val) != nb or multiset(val) != exp_ms):
                    rec.fail("iter_count" if len(val) != nb else "iter_values", {"op": "iter", "field": ftag, "level": lv, "environment": "warnings filter = error"},
                             "yielded %d boxes without an error, level has %d" % (len(val), nb))
            # history on ONE stream object: integer on-demand reads, then the level iteration, then an on-demand list
            if fcls == "A":
                with vpool.controlled():
                    def hist():
                        s_ = pck[S.decode(ftag)][lv]
                        a = [s_.iter(b) for b in range(nb)]
                        b_ = list(itertools.islice(iter(s_), nb + 3))
                        c = list(itertools.islice(s_.iter(list(range(nb))[::-1]), nb + 3))
                        d = list(itertools.islice(iter(s_), nb + 3))
                        return a, b_, c, d
                    st, val = call(hist)
                rec.exe([dh, "stream_history", ftag, lv], nontrivial=True, trans=nb + 3)
                sub = {"op": "history on one stream object", "field": ftag, "level": lv}
                if st == "exc":
                    rec.fail("history_raised", sub, exc_text(val))
                else:
                    a, b_, c, d = val
                    if not (len(a) == nb and all(isinstance(x, np.ndarray) and bits_equal(x, e) for x, e in zip(a, exp_boxes))):
                        rec.fail("history_dependent", dict(sub, step="iter(int)"), "integer on-demand reads are wrong")
                    elif multiset(b_) != exp_ms or multiset(d) != exp_ms:
                        rec.fail("history_dependent", dict(sub, step="iteration after on-demand reads"), "iteration after integer reads does not yield the stored boxes")
                    elif not (len(c) == nb and all(bits_equal(x, e) for x, e in zip(c, exp_boxes[::-1]))):
                        rec.fail("history_dependent", dict(sub, step="iter(list)"), "on-demand list after other reads is wrong")
            # on-demand iterator: requested order
            if fcls != "A" or ftag[0] not in ("name", "list", "slice") or (ftag[0] == "slice" and ftag[1] is None):
                continue
            for btag, bcls, bsel in S.box_selectors(nb, rich=False, maxlist=2):
                if bcls != "A" or btag[0] == "int":
                    continue
                if btag[0] == "slice" and (btag[1] not in (None, 0, 1) or btag[2] not in (None, nb, nb - 1)):
                    continue

                def run_on_demand(plan):
                    with vpool.controlled(plan) as ctl:
                        def go():
                            it = pck[S.decode(ftag)][lv].iter(S.decode(btag))
                            return list(itertools.islice(it, len(bsel) + 3))
                        return ctl, call(go)
                for plan, ctl, (st, val) in explorer.explore(run_on_demand, bound=1, max_tasks=(2 if nb > 64 else 3) if nb > 8 else explorer.MAX_TASKS):
                    rec.exe([dh, "ondemand", ftag, lv, btag, explorer.plan_json(plan)],
                            nontrivial=len(bsel) > 1, trans=sum(c["n"] for c in ctl.calls))
                    sub = {"op": "ondemand", "field": ftag, "level": lv, "box": btag,
                           "plan": explorer.plan_json(plan)}
                    if st == "exc":
                        rec.fail("ondemand_raised", sub, exc_text(val))
                        continue
                    exp = [exp_boxes[b] for b in bsel]
                    if len(val) != len(exp) or not all(isinstance(v, np.ndarray) and bits_equal(v, e)
                                                       for v, e in zip(val, exp)):
                        rec.fail("ondemand_order", sub, "on-demand iterator did not yield the selected boxes in order")
    rec.sample({"desc": desc, "ops": "list(pck[f][lv]) and list(pck[f][lv].iter(sel)) under every schedule"})
    return rec.result()


SIGNATURES = {}
