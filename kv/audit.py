"""Write audit: every write-class file-system event of the code under test, via sys.addaudithook."""
import os
import sys
import hashlib

_REC = None          # list collecting events while recording
_READS = False       # also record opens for reading (C12 independence check)
_INSTALLED = False
_WFLAGS = os.O_WRONLY | os.O_RDWR | os.O_CREAT | os.O_TRUNC | os.O_APPEND

_PATH_EVENTS = {
    "os.mkdir": (0,), "os.rmdir": (0,), "os.remove": (0,), "os.truncate": (0,), "os.chmod": (0,), "os.utime": (0,),
    "os.rename": (0, 1), "os.symlink": (1,), "os.link": (1,), "shutil.rmtree": (0,), "shutil.copyfile": (1,),
    "shutil.move": (0, 1), "shutil.copytree": (1,), "shutil.copymode": (1,), "shutil.copystat": (1,),
    "os.chown": (0,), "os.mkfifo": (0,), "os.mknod": (0,),
}


# position of the dir_fd argument in the audit event (shutil.rmtree walks the tree with directory descriptors)
_DIRFD = {"os.remove": 1, "os.rmdir": 1, "os.mkdir": 2}


def _abs(p, dir_fd=None):
    try:
        if isinstance(p, bytes):
            p = p.decode()
        if isinstance(p, int):
            return None
        p = os.fspath(p)
        base = os.getcwd()
        if isinstance(dir_fd, int) and dir_fd >= 0 and not os.path.isabs(p):
            base = os.readlink("/proc/self/fd/%d" % dir_fd)
        return os.path.realpath(os.path.join(base, p))
    except Exception:
        return None


def _hook(event, args):
    if _REC is None:
        return
    try:
        if event == "open":
            path, mode, flags = args[0], args[1], args[2]
            w = False
            if isinstance(mode, str) and any(c in mode for c in "wax+"):
                w = True
            if isinstance(flags, int) and (flags & _WFLAGS):
                w = True
            if w:
                a = _abs(path)
                if a is not None and not a.startswith(("/dev/null", "/proc/")):
                    _REC.append(("open_w", a))
            elif _READS:
                a = _abs(path)
                if a is not None and not a.startswith(("/dev/null", "/dev/urandom", "/dev/tty", "/proc/", "/usr/", "/venv/", "/opt/", "/etc/", "/sys/")):
                    _REC.append(("open_r", a))
        elif event in _PATH_EVENTS:
            k = _DIRFD.get(event)
            dfd = args[k] if k is not None and k < len(args) else None
            for i in _PATH_EVENTS[event]:
                if i < len(args):
                    a = _abs(args[i], dfd)
                    if a is not None:
                        _REC.append((event, a))
    except Exception:
        pass


def install():
    global _INSTALLED
    if not _INSTALLED:
        sys.addaudithook(_hook)
        _INSTALLED = True


class recording(object):
    """with recording() as ev: ...   ev is the list of (event, absolute path)"""

    def __init__(self, reads=False):
        self.reads = reads

    def __enter__(self):
        global _REC, _READS
        install()
        self.prev = (_REC, _READS)
        _REC = []
        _READS = self.reads
        self.events = _REC
        return self.events

    def __exit__(self, *a):
        global _REC, _READS
        _REC, _READS = self.prev
        return False


def mark():
    """current length of the active event list (None when not recording)"""
    return len(_REC) if _REC is not None else None


def inside(path, root):
    root = os.path.realpath(root)
    return path == root or path.startswith(root.rstrip("/") + "/")


def snapshot(root):
    """content hash + metadata of a tree (detects create / modify / rename / delete)"""
    h = hashlib.sha1()
    for dp, dn, fn in os.walk(root):
        dn.sort()
        st = os.lstat(dp)
        h.update(("D %s %o\n" % (os.path.relpath(dp, root), st.st_mode)).encode())
        for f in sorted(fn):
            p = os.path.join(dp, f)
            st = os.lstat(p)
            h.update(("F %s %o %d %d\n" % (os.path.relpath(p, root), st.st_mode, st.st_size, st.st_mtime_ns)).encode())
            with open(p, "rb") as fh:
                h.update(fh.read())
    return h.hexdigest()
