"""Helpers shared by the checks."""
import os
import io
import sys
import json
import contextlib
import numpy as np

from . import refmodel, vpool


def tier_of(tier):
    return "thorough" if tier == "thorough" else "quick"


def _negate_payloads(path, new_inodes=False):
    """flip the sign bit of every stored value of a plotfile (the look-alike at the lexical location must differ from the real
    plotfile in every non-zero cell, whatever the payload kind).  new_inodes: every binary file is written aside and renamed over
    the old one (as rsync / mv / cp --remove-destination replace a time step), instead of being rewritten in place."""
    import shutil
    pp = refmodel.ParsedPlot(path)
    for lv in range(pp.nread):
        pl = pp.levels[lv]
        for fname in sorted(set(pl.files)):
            fp = os.path.join(pl.dir, fname)
            target = fp
            if new_inodes:
                target = fp + ".incoming"
                shutil.copyfile(fp, target)
            with open(target, "r+b") as f:
                for (off, lo, hi, nc, end) in pp.scan_file(lv, fname):
                    n = int(np.prod([h - l + 1 for l, h in zip(lo, hi)])) * nc
                    f.seek(end - 8 * n)
                    a = np.frombuffer(f.read(8 * n), dtype="<u8") ^ np.uint64(1 << 63)
                    f.seek(end - 8 * n)
                    f.write(a.tobytes())
            if new_inodes:
                os.replace(target, fp)


def negated(a):
    """what _negate_payloads leaves of the values `a`"""
    return (np.ascontiguousarray(a, dtype=np.float64).view(np.uint64) ^ np.uint64(1 << 63)).view(np.float64).reshape(np.shape(a))


PATHFORMS_ENABLED = True        # the runner switches it off for checks that spell their paths themselves (PATHFORMS = False)


def build(desc, workdir, name="plt00000", prehistory=None, pathform=None):
    """Write the plotfile described by desc under workdir; return (path, RefPlot).  For half of the descriptors (by a hash of
    the descriptor; `prehistory` forces it) the process has ALREADY USED the plotfile when the check starts: see
    reader_prehistory()."""
    import zlib
    key = zlib.crc32(json.dumps(desc, sort_keys=True, default=str).encode())
    path = os.path.join(workdir, name)
    if pathform is None:
        pathform = "dotdot" if (key // 2) % 4 == 3 else "plain"
    if pathform == "dotdot" and PATHFORMS_ENABLED and not os.environ.get("KV_NO_PATHFORMS") and not os.path.lexists(path):
        # the path handed to the check is `<workdir>/_lnk/../<name>`, where _lnk is a symbolic link to a directory two levels
        # down: the operating system resolves it to <workdir>/_deep/<name> (the plotfile); collapsing `_lnk/..` as TEXT gives
        # <workdir>/<name> - where a plotfile of the same mesh and names but OTHER values waits (another time step)
        deep = os.path.join(workdir, "_deep")
        os.makedirs(os.path.join(deep, "_sub"), exist_ok=True)
        if not os.path.islink(os.path.join(workdir, "_lnk")):
            os.symlink(os.path.join("_deep", "_sub"), os.path.join(workdir, "_lnk"))
        try:
            twin = dict(desc, seed=int(desc.get("seed", 0)) + 778)
            refmodel.write_plotfile(twin, path)
            _negate_payloads(path)
        except Exception:
            pass
        path = os.path.join(workdir, "_lnk", "..", name)
        ref = refmodel.write_plotfile(desc, os.path.join(deep, name))
    else:
        ref = refmodel.write_plotfile(desc, path)
    if os.environ.get("KV_TWIN_RUN"):
        # the runner's twin pre-run (another time step at the same paths): every stored value differs from the case's own
        try:
            _negate_payloads(path)
        except Exception:
            pass
    if prehistory is None:
        prehistory = key % 2 == 1
    if prehistory and not os.environ.get("KV_NO_PREHISTORY"):
        reader_prehistory(path)
    return path, ref


PREHISTORY_MARK = -7.77e77


def reader_prehistory(path):
    """What a caller may have done with this plotfile earlier in the same process: open it, read single boxes by integer
    index through field selectors of several widths (one-field slices first, wider ones later), names and lists, iterate a
    level, select several boxes - and then EDIT the returned arrays in place (they belong to the caller).  Nothing is judged
    here (C01 / C15 judge reads); errors are ignored.  Whatever the package remembers from this (caches keyed by path, file,
    offset or header line, arrays it still shares with the caller, state of shared helpers) is in place when the operation
    under check starts - which must not notice."""
    so = sys.stdout
    sys.stdout = io.StringIO()
    try:
        from amr_kitchen import PlotfileCooker
        # (in the free-running pass of C12 the pools are the real ones, here too)
        with (contextlib.nullcontext() if os.environ.get("KV_REAL_POOLS") else vpool.controlled()):
            pck = PlotfileCooker(path)
            names = list(pck.fields)
            held = []
            for lv in range(pck.limit_level + 1):
                for sel in (slice(0, 1), slice(1, 2), names[-1], [0], slice(None), names[0]):
                    try:
                        held.append(pck[sel][lv][0])
                    except Exception:
                        pass
                try:
                    held.extend(pck[names[0]][lv][:2])
                except Exception:
                    pass
                try:
                    for a in pck[0:1][lv]:
                        held.append(a)
                        break
                except Exception:
                    pass
            for a in held:
                try:
                    if isinstance(a, np.ndarray) and a.flags.writeable:
                        a[...] = PREHISTORY_MARK
                except Exception:
                    pass
    except Exception:
        pass
    finally:
        sys.stdout = so


@contextlib.contextmanager
def quiet():
    """Silence python-level stdout/stderr of the tools (workers already dup2 to /dev/null)."""
    so, se = sys.stdout, sys.stderr
    sys.stdout = io.StringIO()
    sys.stderr = io.StringIO()
    try:
        yield sys.stdout
    finally:
        sys.stdout, sys.stderr = so, se


def call(fn, *a, **k):
    """Run fn; return ('ok', value) or ('exc', exception)."""
    try:
        return "ok", fn(*a, **k)
    except Exception as e:      # noqa - any exception is an observable outcome
        return "exc", e


def jsonable(x):
    if isinstance(x, (np.integer,)):
        return int(x)
    if isinstance(x, (np.floating,)):
        return float(x)
    if isinstance(x, np.ndarray):
        return x.tolist()
    if isinstance(x, slice):
        return {"slice": [x.start, x.stop, x.step]}
    if isinstance(x, (list, tuple)):
        return [jsonable(a) for a in x]
    if isinstance(x, dict):
        return {str(k): jsonable(v) for k, v in x.items()}
    return x


def exc_text(e):
    return "%s: %s" % (type(e).__name__, str(e)[:300])


def digest_arrays(arrs):
    import hashlib
    h = hashlib.sha1()
    for a in arrs:
        a = np.ascontiguousarray(a)
        h.update(str(a.shape).encode())
        h.update(a.tobytes())
    return h.hexdigest()


# ----------------------------------------------------------------------------------------
# uninitialised memory: np.empty / np.empty_like / np.ndarray return poison-filled arrays
# ----------------------------------------------------------------------------------------
POISONS = [0x7ff4dead0000beef, 0x7e3a5a5a5a5a5a5a]   # a signalling-NaN pattern, a huge finite number (~1.2e300)


class PoisonNumpy(object):
    """Proxy for the numpy module handed to a module under test."""

    def __init__(self, bits):
        import numpy
        self._np = numpy
        self._bits = numpy.uint64(bits)

    def __getattr__(self, name):
        return getattr(self._np, name)

    def empty(self, shape, dtype=float, order="C", **kw):
        a = self._np.empty(shape, dtype=dtype, order=order)
        if a.dtype == self._np.float64:
            a.view(self._np.uint64)[...] = self._bits
        else:
            a[...] = 77 if a.dtype.kind in "iu" else 0
        return a

    def empty_like(self, proto, dtype=None, **kw):
        a = self._np.empty_like(proto, dtype=dtype)
        if a.dtype == self._np.float64:
            a.view(self._np.uint64)[...] = self._bits
        return a


@contextlib.contextmanager
def poisoned(modnames, which=0):
    """Replace the `np` global of the named (already imported) modules by a poison proxy."""
    import sys
    proxy = PoisonNumpy(POISONS[which])
    saved = []
    for mn in modnames:
        mod = sys.modules[mn]
        saved.append((mod, mod.np))
        mod.np = proxy
    try:
        yield proxy
    finally:
        for mod, old in saved:
            mod.np = old


def has_poison(arr):
    a = np.ascontiguousarray(arr, dtype=np.float64).view(np.uint64)
    return bool(np.isin(a, np.array(POISONS, dtype=np.uint64)).any())


def run_cli(main, argv):
    """Drive a console entry point in-process: returns ('ok', None) | ('exit', code) | ('exc', exception)."""
    import sys
    old = sys.argv
    sys.argv = list(argv)
    try:
        main()
        return "ok", None
    except SystemExit as e:
        return ("ok", None) if e.code in (None, 0) else ("exit", e.code)
    except Exception as e:      # noqa
        return "exc", e
    finally:
        sys.argv = old
