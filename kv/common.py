"""Helpers shared by the checks."""
import os
import io
import sys
import json
import contextlib
import numpy as np

from . import refmodel, vpool


def tier_of(tier):
    return "thorough" if tier == "thorough" else "quick"


def build(desc, workdir, name="plt00000"):
    """Write the plotfile described by desc under workdir; return (path, RefPlot)."""
    path = os.path.join(workdir, name)
    ref = refmodel.write_plotfile(desc, path)
    return path, ref


@contextlib.contextmanager
def quiet():
    """Silence python-level stdout/stderr of the tools (workers already dup2 to /dev/null)."""
    so, se = sys.stdout, sys.stderr
    sys.stdout = io.StringIO()
    sys.stderr = io.StringIO()
    try:
        yield sys.stdout
    finally:
        sys.stdout, sys.stderr = so, se


def call(fn, *a, **k):
    """Run fn; return ('ok', value) or ('exc', exception)."""
    try:
        return "ok", fn(*a, **k)
    except Exception as e:      # noqa - any exception is an observable outcome
        return "exc", e


def jsonable(x):
    if isinstance(x, (np.integer,)):
        return int(x)
    if isinstance(x, (np.floating,)):
        return float(x)
    if isinstance(x, np.ndarray):
        return x.tolist()
    if isinstance(x, slice):
        return {"slice": [x.start, x.stop, x.step]}
    if isinstance(x, (list, tuple)):
        return [jsonable(a) for a in x]
    if isinstance(x, dict):
        return {str(k): jsonable(v) for k, v in x.items()}
    return x


def exc_text(e):
    return "%s: %s" % (type(e).__name__, str(e)[:300])


def digest_arrays(arrs):
    import hashlib
    h = hashlib.sha1()
    for a in arrs:
        a = np.ascontiguousarray(a)
        h.update(str(a.shape).encode())
        h.update(a.tobytes())
    return h.hexdigest()
