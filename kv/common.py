"""Helpers shared by the checks."""
import os
import io
import sys
import json
import contextlib
import numpy as np

from . import refmodel, vpool


def tier_of(tier):
    return "thorough" if tier == "thorough" else "quick"


def build(desc, workdir, name="plt00000"):
    """Write the plotfile described by desc under workdir; return (path, RefPlot)."""
    path = os.path.join(workdir, name)
    ref = refmodel.write_plotfile(desc, path)
    return path, ref


@contextlib.contextmanager
def quiet():
    """Silence python-level stdout/stderr of the tools (workers already dup2 to /dev/null)."""
    so, se = sys.stdout, sys.stderr
    sys.stdout = io.StringIO()
    sys.stderr = io.StringIO()
    try:
        yield sys.stdout
    finally:
        sys.stdout, sys.stderr = so, se


def call(fn, *a, **k):
    """Run fn; return ('ok', value) or ('exc', exception)."""
    try:
        return "ok", fn(*a, **k)
    except Exception as e:      # noqa - any exception is an observable outcome
        return "exc", e


def jsonable(x):
    if isinstance(x, (np.integer,)):
        return int(x)
    if isinstance(x, (np.floating,)):
        return float(x)
    if isinstance(x, np.ndarray):
        return x.tolist()
    if isinstance(x, slice):
        return {"slice": [x.start, x.stop, x.step]}
    if isinstance(x, (list, tuple)):
        return [jsonable(a) for a in x]
    if isinstance(x, dict):
        return {str(k): jsonable(v) for k, v in x.items()}
    return x


def exc_text(e):
    return "%s: %s" % (type(e).__name__, str(e)[:300])


def digest_arrays(arrs):
    import hashlib
    h = hashlib.sha1()
    for a in arrs:
        a = np.ascontiguousarray(a)
        h.update(str(a.shape).encode())
        h.update(a.tobytes())
    return h.hexdigest()


# ----------------------------------------------------------------------------------------
# uninitialised memory: np.empty / np.empty_like / np.ndarray return poison-filled arrays
# ----------------------------------------------------------------------------------------
POISONS = [0x7ff4dead0000beef, 0x7e3a5a5a5a5a5a5a]   # a signalling-NaN pattern, a huge finite number (~1.2e300)


class PoisonNumpy(object):
    """Proxy for the numpy module handed to a module under test."""

    def __init__(self, bits):
        import numpy
        self._np = numpy
        self._bits = numpy.uint64(bits)

    def __getattr__(self, name):
        return getattr(self._np, name)

    def empty(self, shape, dtype=float, order="C", **kw):
        a = self._np.empty(shape, dtype=dtype, order=order)
        if a.dtype == self._np.float64:
            a.view(self._np.uint64)[...] = self._bits
        else:
            a[...] = 77 if a.dtype.kind in "iu" else 0
        return a

    def empty_like(self, proto, dtype=None, **kw):
        a = self._np.empty_like(proto, dtype=dtype)
        if a.dtype == self._np.float64:
            a.view(self._np.uint64)[...] = self._bits
        return a


@contextlib.contextmanager
def poisoned(modnames, which=0):
    """Replace the `np` global of the named (already imported) modules by a poison proxy."""
    import sys
    proxy = PoisonNumpy(POISONS[which])
    saved = []
    for mn in modnames:
        mod = sys.modules[mn]
        saved.append((mod, mod.np))
        mod.np = proxy
    try:
        yield proxy
    finally:
        for mod, old in saved:
            mod.np = old


def has_poison(arr):
    a = np.ascontiguousarray(arr, dtype=np.float64).view(np.uint64)
    return bool(np.isin(a, np.array(POISONS, dtype=np.uint64)).any())


def run_cli(main, argv):
    """Drive a console entry point in-process: returns ('ok', None) | ('exit', code) | ('exc', exception)."""
    import sys
    old = sys.argv
    sys.argv = list(argv)
    try:
        main()
        return "ok", None
    except SystemExit as e:
        return ("ok", None) if e.code in (None, 0) else ("exit", e.code)
    except Exception as e:      # noqa
        return "exc", e
    finally:
        sys.argv = old
