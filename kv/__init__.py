"""kv - bounded-exhaustive model checking of amrex-kitchen (see /verif/DESIGN.md)."""
