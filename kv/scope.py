"""Small-scope universe: exhaustive enumerators of meshes, layouts, geometries, fields."""
import itertools
from functools import lru_cache


# --------------------------------------------------------------------------------------
# meshes
# --------------------------------------------------------------------------------------
def _tilings(lo, hi, maxboxes):
    """All guillotine tilings of the integer box [lo,hi) (block units) into <= maxboxes boxes.
    Returns a set of frozensets of (lo, hi) pairs (hi exclusive)."""
    out = {frozenset([(lo, hi)])}
    if maxboxes < 2:
        return out
    nd = len(lo)
    for d in range(nd):
        for c in range(lo[d] + 1, hi[d]):
            hi1 = tuple(c if k == d else hi[k] for k in range(nd))
            lo2 = tuple(c if k == d else lo[k] for k in range(nd))
            for n1 in range(1, maxboxes):
                for t1 in _tilings(lo, hi1, n1):
                    if len(t1) != n1:
                        continue
                    for t2 in _tilings(lo2, hi, maxboxes - n1):
                        out.add(t1 | t2)
    return out


@lru_cache(maxsize=None)
def level0_tilings(blocks, maxboxes, bs=2):
    """All guillotine tilings of a block grid `blocks` (tuple) into <= maxboxes boxes, in cells
    (block size bs), as sorted lists of (lo, hi) with hi inclusive; simplest first."""
    nd = len(blocks)
    res = []
    for t in _tilings(tuple([0] * nd), tuple(blocks), maxboxes):
        boxes = sorted((tuple(a * bs for a in lo), tuple(b * bs - 1 for b in hi)) for lo, hi in t)
        res.append(boxes)
    res.sort(key=lambda b: (len(b), b))
    return res


def _inside_union(lo, hi, union):
    """Is the cell box [lo,hi] (inclusive) contained in the union of inclusive boxes?"""
    nd = len(lo)
    # brute force over cells: boxes are tiny
    for cell in itertools.product(*[range(lo[d], hi[d] + 1) for d in range(nd)]):
        ok = False
        for (ulo, uhi) in union:
            if all(ulo[d] <= cell[d] <= uhi[d] for d in range(nd)):
                ok = True
                break
        if not ok:
            return False
    return True


def _disjoint(a, b):
    return any(a[1][d] < b[0][d] or b[1][d] < a[0][d] for d in range(len(a[0])))


def fine_box_sets(coarse_boxes, domain_fine, gran, maxboxes, minsize=None, maxsize=None,
                  allow_empty=False):
    """All sets of <= maxboxes pairwise disjoint boxes at the next finer level whose corners lie
    on multiples of `gran` fine cells, contained in the refinement of `coarse_boxes`.
    Sorted simplest first; every set is a sorted list of (lo, hi) inclusive."""
    nd = len(domain_fine)
    refined = [(tuple(2 * a for a in lo), tuple(2 * b + 1 for b in hi)) for lo, hi in coarse_boxes]
    cands = []
    ranges = []
    for d in range(nd):
        pts = list(range(0, domain_fine[d] + 1, gran))
        ranges.append([(a, b) for a in pts for b in pts if b > a])
    for combo in itertools.product(*ranges):
        lo = tuple(c[0] for c in combo)
        hi = tuple(c[1] - 1 for c in combo)
        size = [hi[d] - lo[d] + 1 for d in range(nd)]
        if minsize and any(s < minsize for s in size):
            continue
        if maxsize and any(s > maxsize for s in size):
            continue
        if _inside_union(lo, hi, refined):
            cands.append((lo, hi))
    cands.sort()
    res = [[]] if allow_empty else []
    for n in range(1, maxboxes + 1):
        for comb in itertools.combinations(cands, n):
            if all(_disjoint(a, b) for a, b in itertools.combinations(comb, 2)):
                res.append(list(comb))
    return res


# --------------------------------------------------------------------------------------
# layouts: which file holds which box, in which on-disk order, with which file number
# --------------------------------------------------------------------------------------
def set_partitions(items):
    items = list(items)
    if not items:
        yield []
        return
    first, rest = items[0], items[1:]
    for part in set_partitions(rest):
        yield [[first]] + part
        for i in range(len(part)):
            yield part[:i] + [[first] + part[i]] + part[i + 1:]


@lru_cache(maxsize=None)
def layouts(n, numberings='all', base=0):
    """All ordered set partitions of n boxes into files x file numberings.
    numberings: 'all' (every assignment of numbers base..base+m-1 to the m files),
                'id' (canonical), 'idrev' (canonical and reversed).
    Returned simplest first: single file in box order is always element 0."""
    res = []
    for part in set_partitions(range(n)):
        part = sorted(part, key=min)
        m = len(part)
        for orders in itertools.product(*[itertools.permutations(blk) for blk in part]):
            files = [list(o) for o in orders]
            if numberings == 'all':
                nums_list = list(itertools.permutations(range(base, base + m)))
            elif numberings == 'idrev':
                nums_list = [tuple(range(base, base + m))]
                if m > 1:
                    nums_list.append(tuple(reversed(range(base, base + m))))
            else:
                nums_list = [tuple(range(base, base + m))]
            for nums in nums_list:
                res.append({"files": files, "nums": list(nums)})

    def cost(lay):
        flat = [b for f in lay["files"] for b in f]
        return (len(lay["files"]), flat != sorted(flat), lay["nums"] != sorted(lay["nums"]), flat, lay["nums"])
    res.sort(key=cost)
    return res


WIDE_NUMBERS = [10000, 99999, 100000, 100001, 1000000]


def wide_numbers(lay, first=1):
    """the same layout with file numbers of DIFFERENT widths (AMReX writes more digits beyond Cell_D_99999): the files keep
    their relative numeric order; as text `Cell_D_100000` sorts before `Cell_D_99999`, and `Cell_D_10000` is a prefix of
    `Cell_D_100000`.  first=1: numbers 99999, 100000, ...; first=0: 10000, 99999, 100000, ..."""
    order = sorted(range(len(lay["nums"])), key=lambda i: lay["nums"][i])
    nums = [None] * len(order)
    for rank, i in enumerate(order):
        nums[i] = WIDE_NUMBERS[(first + rank) % len(WIDE_NUMBERS)] if first + rank < len(WIDE_NUMBERS) else 1000000 + rank
    return {"files": [list(f) for f in lay["files"]], "nums": nums}


def layout_is_trivial(lay):
    """single file, boxes on disk in box order"""
    return len(lay["files"]) == 1 and lay["files"][0] == sorted(lay["files"][0])


def layout_monotone(lay):
    """every file holds its boxes in ascending box order (offsets monotone in box index)"""
    return all(f == sorted(f) for f in lay["files"])


# --------------------------------------------------------------------------------------
# geometry / fields
# --------------------------------------------------------------------------------------
ORIGINS3 = [[0.0, 0.0, 0.0], [1.0, -2.0, 0.5]]
CELLS3 = [[0.25, 0.25, 0.25], [0.25, 0.5, 0.125], [0.1, 0.3, 0.7]]
TIMES = [0.5, 0.0, -1.25, 1.3924182125972017e-08, 2.0]
# coordinates that are huge / cells that are tiny compared with the default tolerances of np.isclose (rtol 1e-5 of the
# coordinate, atol 1e-8): exact dyadic numbers, so every comparison the tools make is decidable
FAR = {"origin": [1048576.0, -2097152.0, 524288.0], "dx0": [0.25, 0.5, 0.125]}
MICRO = {"origin": [0.0, 0.0, 0.0], "dx0": [2.0 ** -30, 2.0 ** -29, 2.0 ** -31]}


def extreme_geometries(ndims):
    return [{"origin": g["origin"][:ndims], "dx0": g["dx0"][:ndims]} for g in (FAR, MICRO)]


def geometries(ndims, origins=None, cells=None):
    origins = ORIGINS3 if origins is None else origins
    cells = CELLS3 if cells is None else cells
    for o in origins:
        for c in cells:
            yield {"origin": o[:ndims], "dx0": c[:ndims]}


FIELD_ALPHABET = ["temp", "density", "Y(H2)", "Y(O2)", "volFrac", "Z", "Zvar", "a", "x_velocity"]
# names that differ only by letter case (both are distinct, valid AMReX field names)
CASE_FIELDS = ["T", "rho", "t", "Y(CO)", "Y(Co)", "Rho"]


def rotate(seq, seed):
    seq = list(seq)
    if not seq:
        return seq
    k = seed % len(seq)
    return seq[k:] + seq[:k]


def thin_meshes(ndims):
    """boxes that are one cell thick in some direction, odd extents, a single-cell box (all valid)"""
    if ndims == 2:
        return [{"ndims": 2, "domain": [3, 1], "levels": [[[[0, 0], [1, 0]], [[2, 0], [2, 0]]]]},
                {"ndims": 2, "domain": [3, 3], "levels": [[[[0, 0], [2, 0]], [[0, 1], [0, 2]], [[1, 1], [2, 2]]],
                                                         [[[1, 1], [1, 3]], [[2, 1], [4, 1]], [[2, 2], [4, 3]]]]}]
    return [{"ndims": 3, "domain": [3, 2, 1], "levels": [[[[0, 0, 0], [1, 1, 0]], [[2, 0, 0], [2, 0, 0]], [[2, 1, 0], [2, 1, 0]]]]},
            {"ndims": 3, "domain": [3, 1, 3], "levels": [[[[0, 0, 0], [2, 0, 0]], [[0, 0, 1], [0, 0, 2]], [[1, 0, 1], [2, 0, 2]]],
                                                        [[[1, 0, 1], [1, 1, 3]], [[2, 0, 1], [4, 0, 1]], [[2, 0, 2], [4, 1, 3]]]]}]


def far_index_meshes(ndims):
    """box indices of six digits in TWO directions (relative tolerances of 1e-5 confuse neighbouring cells there, and the
    FAB header lines of these boxes are longer than 100 bytes).  Level 0 does not tile the domain: for readers and
    validators only, not for the tools that build domain-sized arrays."""
    if ndims == 2:
        return [{"ndims": 2, "domain": [100004, 100002], "levels": [[[[0, 0], [1, 1]], [[100000, 100000], [100001, 100001]], [[100002, 100000], [100003, 100001]]],
                                                                   [[[200000, 200000], [200003, 200003]], [[200004, 200000], [200005, 200001]]]]}]
    return [{"ndims": 3, "domain": [100004, 100002, 2], "levels": [[[[0, 0, 0], [1, 1, 1]], [[100000, 100000, 0], [100001, 100001, 1]], [[100002, 100000, 0], [100003, 100001, 1]]],
                                                                  [[[200000, 200000, 0], [200003, 200003, 3]], [[200004, 200000, 0], [200005, 200001, 1]]]]}]


def deep_corner_mesh(nlev=7):
    """a properly nested 3D hierarchy of `nlev` levels refined towards the far corner of a 16 x 2 x 2 domain: two 4^3
    boxes per level; at level 6 the indices have 4 + 3 + 3 digits (1020..1023, 124..127), so that with >= 10 fields the
    FAB header lines are longer than 100 bytes - as in any production run.  Tiny on disk; the finest uniform grid is
    1024 x 128 x 128."""
    levels = [[[[0, 0, 0], [7, 1, 1]], [[8, 0, 0], [15, 1, 1]]]]
    for k in range(1, nlev):
        hi = [16 * 2 ** k - 1, 2 * 2 ** k - 1, 2 * 2 ** k - 1]
        lo = [hi[0] - 3, max(hi[1] - 3, 0), max(hi[2] - 3, 0)]
        levels.append([[[lo[0] - 4, lo[1], lo[2]], [lo[0] - 1, hi[1], hi[2]]], [lo, hi]])
    return {"ndims": 3, "domain": [16, 2, 2], "levels": levels}


DEEP_FIELDS = ["f%d" % i for i in range(12)]


def many_box_mesh():
    """27 boxes on level 0 and 20 on level 1 (2^3 cells each): more boxes than the small-array shortcuts of sorting
    routines (16), not a multiple of 8, two-digit box counts in the headers"""
    l0 = [[[2 * i, 2 * j, 2 * k], [2 * i + 1, 2 * j + 1, 2 * k + 1]] for k in range(3) for j in range(3) for i in range(3)]
    l1 = [[[2 * i, 2 * j, 0], [2 * i + 1, 2 * j + 1, 1]] for j in range(4) for i in range(5)]
    return {"ndims": 3, "domain": [6, 6, 6], "levels": [l0, l1]}


def many_file_mesh():
    """131 boxes on level 0, each in its OWN binary file (more files than any batching threshold of 64 or 128, not a
    multiple of anything); 66 boxes on level 1 in 65 files"""
    l0 = [[[2 * i, 0, 0], [2 * i + 1, 1, 1]] for i in range(131)]
    l1 = [[[4 * i, 0, 0], [4 * i + 1, 1, 1]] for i in range(66)]
    return {"ndims": 3, "domain": [262, 2, 2], "levels": [l0, l1]}


def many_file_layouts():
    """file numbers in descending order on level 0; on level 1 the last file holds two boxes"""
    return [{"files": [[b] for b in range(131)], "nums": list(reversed(range(131)))},
            {"files": [[b] for b in range(64)] + [[65, 64]], "nums": list(range(65))}]


def scattered_layout(nboxes, nfiles=5):
    """box b lives in file (7 b) mod nfiles; odd files hold their boxes in descending order; file numbers reversed"""
    files = [[b for b in range(nboxes) if (7 * b) % nfiles == f] for f in range(nfiles)]
    files = [sorted(f, reverse=bool(i % 2)) for i, f in enumerate(files) if f]
    return {"files": files, "nums": list(reversed(range(len(files))))}


# a few fixed meshes used as irrelevant context (rotated by VERIF_SEED)
def named_meshes(ndims):
    if ndims == 2:
        return [
            {"ndims": 2, "domain": [4, 4], "levels": [[[[0, 0], [3, 3]]]]},
            {"ndims": 2, "domain": [4, 6], "levels": [[[[0, 0], [3, 1]], [[0, 2], [3, 5]]],
                                                     [[[2, 2], [5, 5]], [[0, 8], [3, 11]]]]},
            {"ndims": 2, "domain": [6, 4], "levels": [[[[0, 0], [1, 3]], [[2, 0], [5, 3]]],
                                                     [[[0, 0], [3, 3]], [[4, 2], [9, 5]], [[10, 0], [11, 7]]],
                                                     [[[2, 2], [5, 5]]]]},
        ]
    return [
        {"ndims": 3, "domain": [4, 4, 4], "levels": [[[[0, 0, 0], [3, 3, 3]]]]},
        {"ndims": 3, "domain": [4, 4, 2], "levels": [[[[0, 0, 0], [1, 3, 1]], [[2, 0, 0], [3, 3, 1]]],
                                                    [[[2, 2, 0], [5, 5, 3]], [[0, 6, 0], [1, 7, 1]]]]},
        {"ndims": 3, "domain": [6, 4, 2], "levels": [[[[0, 0, 0], [1, 3, 1]], [[2, 0, 0], [5, 1, 1]], [[2, 2, 0], [5, 3, 1]]],
                                                    [[[0, 0, 0], [3, 3, 3]], [[4, 2, 0], [9, 5, 1]], [[10, 0, 2], [11, 7, 3]]],
                                                    [[[2, 2, 2], [5, 5, 5]]]]},
    ]
