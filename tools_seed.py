#!/venv/bin/python
"""Validate a seeded property-breaking change delivered in <worktree>/_seeded/<variant>/ and record it under
/verif/seeded/<prop>-<variant>/ : (1) demo fails with the change, (2) repository tests still pass with it,
(3) which of our checks report it (run against the worktree through PYTHONPATH, /repo is not touched),
(4) demo passes without the change.    usage: tools_seed.py <worktree> <variant> <CHECK[,CHECK...]> [--skip-tests]"""
import os, sys, json, shutil, subprocess, re, time

wt, variant, checks = sys.argv[1], sys.argv[2], sys.argv[3].split(",")
skip_tests = "--skip-tests" in sys.argv
tier = "quick"
for a in sys.argv:
    if a.startswith("--tier="):
        tier = a.split("=")[1]
label = variant
for a in sys.argv:
    if a.startswith("--as="):
        label = a.split("=")[1]
sd = os.path.join(wt, "_seeded", variant)
meta = json.load(open(os.path.join(sd, "meta.json")))
prop = meta.get("property", "C??")
env = dict(os.environ, PYTHONPATH=wt, KV_EVIDENCE_DIR="/dev/shm/kv_seed_ev_%s%s" % (prop, label),
           KV_REPLAY_DIR="/dev/shm/kv_seed_rp_%s%s" % (prop, label))


def sh(cmd, cwd=None, timeout=3600):
    r = subprocess.run(cmd, shell=True, cwd=cwd, env=env, capture_output=True, text=True, timeout=timeout)
    return r.returncode, r.stdout + r.stderr


sh("git checkout -- amr_kitchen", wt)
rc, out = sh("git apply _seeded/%s/patch.diff" % variant, wt)
if rc:
    print("PATCH DOES NOT APPLY", out)
    sys.exit(2)
res = {"demo_with_change_rc": None, "tests_with_change": None, "checks": {}, "demo_without_change_rc": None}
rc, out = sh("/venv/bin/python %s/demo.py" % sd, "/tmp", 900)
res["demo_with_change_rc"] = rc
if not skip_tests:
    rc, out = sh("/venv/bin/python -m pytest -q -p no:cacheprovider --timeout=900 2>&1 | tail -3", wt, 1800)
    m = re.search(r"(\d+) passed", out)
    f = re.search(r"(\d+) failed", out)
    res["tests_with_change"] = {"passed": int(m.group(1)) if m else 0, "failed": int(f.group(1)) if f else 0,
                                "only_expected_failure": "test_chk2plt" in out and (int(f.group(1)) if f else 0) == 1}
    shutil.rmtree(os.path.join(wt, "test", "plt_tmp"), ignore_errors=True)
for c in checks:
    t0 = time.time()
    rc, out = sh("bin/check %s --tier %s" % (c, tier), os.environ.get("KV_VERIF_DIR", "/verif"), 7200)
    viol = [l for l in out.split("\n") if l.startswith("VIOLATION")]
    summ = [l for l in out.split("\n") if re.match(r"^C\d+ tier=", l)]
    res["checks"][c] = {"rc": rc, "violation_lines": len(viol), "first": viol[0][:300] if viol else None,
                        "summary": summ[-1] if summ else out[-300:], "wall_s": round(time.time() - t0, 1)}
sh("git checkout -- amr_kitchen", wt)
rc, out = sh("/venv/bin/python %s/demo.py" % sd, "/tmp", 900)
res["demo_without_change_rc"] = rc
for d in (env["KV_EVIDENCE_DIR"], env["KV_REPLAY_DIR"]):
    shutil.rmtree(d, ignore_errors=True)
dst = os.path.join("/verif/seeded", "%s-%s" % (prop, label))
os.makedirs(dst, exist_ok=True)
shutil.copy(os.path.join(sd, "patch.diff"), dst)
shutil.copy(os.path.join(sd, "demo.py"), dst)
old = os.path.join(dst, "meta.json")
if skip_tests and os.path.exists(old):
    try:
        res["tests_with_change"] = json.load(open(old))["verified_by_us"].get("tests_with_change")
    except Exception:
        pass
meta["verified_by_us"] = res
meta["what_we_ran"] = ("tools_seed.py: patch applied in a scratch worktree; demo.py run with and without it; repository tests run with it; "
                       "bin/check %s --tier %s run against the patched worktree (PYTHONPATH)" % (",".join(checks), tier))
meta["detected_by"] = [c for c, v in res["checks"].items() if v["rc"] == 1]
json.dump(meta, open(os.path.join(dst, "meta.json"), "w"), indent=1)
print(json.dumps({"id": "%s-%s" % (prop, label), **res}, indent=1))
