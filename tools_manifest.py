#!/venv/bin/python
"""Regenerates MANIFEST.json from the table below (keeps it valid at all times)."""
import json, os
HERE = os.path.dirname(os.path.abspath(__file__))

T = "bounded-exhaustive exploration of the implementation against a reference model"
CHECKS = {
 "C01": dict(cat="model_checking", design="4/C01",
   text="Every selection pck[field][level][box] over the complete selector alphabets (names, ints, NumPy ints, all slices, "
        "all index lists <= 3, all boolean masks) is executed on every plotfile of a small-scope universe (2D/3D, <= 3 levels, "
        "every box->file layout / on-disk order / file numbering of one deviating level, 1..4 fields, coded + non-finite payloads) "
        "and compared bit-wise with NumPy indexing of the reference arrays; class A exact, class B exact-or-exception, class C must raise.",
   note="Controlled in-process pool with the identity schedule (schedules are C12/C15); plotfiles come from the reference writer, "
        "bound to the real AMReX assets by the conformance pass run at the start of every check.",
   tech="bounded-exhaustive exploration of the implementation against a reference model"),
 "C02": dict(cat="model_checking", design="4/C02",
   text="Every open PlotfileCooker(path, limit_level in {None,0..finest,finest+1}, header_only, maxmins) on a universe of generated "
        "plotfiles (2D/3D, 1..4 levels, two origins x three cell shapes x five times fully crossed, repeated field names, "
        "refinement-ratio line of length L..L+2, scattered layouts with file numbers starting at 1) is executed and every public "
        "attribute named by the property is compared with the descriptor; header-only opens run on a directory that has no level data.",
   note="Floats must be bit-equal to float(text); grids to 1e-12 relative.",
   tech="bounded-exhaustive exploration of the implementation against a reference model"),
 "C03": dict(cat="model_checking", design="4/C03",
   text="Taster is run with all 16 option combinations x every level limit x {fail, nofail} on the C01 plotfile universe "
        "(all layouts of one deviating level, non-finite payloads; NaN-free where binary_data is enabled); it must never raise and must evaluate true.",
   note="Controlled in-process pool, identity schedule; min/max rows of NaN data are not defined by the format and carry no demand.",
   tech="bounded-exhaustive exploration of the implementation against a reference model"),
 "C15": dict(cat="model_checking", design="4/C15",
   text="list(pck[f][lv]) and list(pck[f][lv].iter(sel)) are executed under every schedule of the per-file / per-box pool tasks "
        "(all n! execution=completion orders for n <= 4 tasks x lazy|eager consumption, deviation bound 1) on the C01 universe; "
        "the yielded arrays must equal the reference boxes as a multiset (resp. in requested order) and the iteration must stop.",
   note="Tasks are atomic read-only units (checked in C12); the pool semantics are those of CPython 3.12 multiprocessing.pool modelled in kv/vpool.py.",
   tech="stateless schedule exploration (controlled scheduler) of the implementation against a reference model"),
 "C04": dict(cat="fault_enumeration", design="4/C04",
   text="Every corruption operator (delete / truncate / extend a binary file, insert or remove 8 bytes at every FAB boundary and "
        "mid-payload with and without the matching offset shift, FAB header range / shift / component count, level-header index "
        "line shifted / grown / deleted / unparsable / token dropped, FabOnDisk line deleted / offset +-1, mid-payload, EOF, beyond / "
        "file name missing or other, Header box bounds moved / swapped / grown) is applied at every site of six base plotfiles "
        "(2D/3D x single-file / multi-file / non-monotone layouts), singly and in pairs at distinct sites; for every mutant the "
        "reference validator ref_bad decides whether the statement's conditions hold, and then Taster must raise in failing mode "
        "and evaluate false without raising in non-failing mode, for limit in {None, 0} and with box coordinates.",
   note="ref_bad is the statement taken literally including its leniency (last-four-token FAB header parse; third index tuple ignored); "
        "mutants that are not ref_bad carry no demand. Quick tier restricts pairs to the same binary file.",
   tech="exhaustive fault enumeration (every operator x site, singles and pairs) against a reference validator"),
 "C05": dict(cat="model_checking", design="4/C05",
   text="Colander.strain() is executed for 'all' and every non-empty ordered selection of distinct names (with an unknown name "
        "inserted at every position) x every level limit on the C01 plotfile universe (2D/3D, every layout of one deviating level, "
        "non-finite payloads); the output is parsed by the independent reader and compared with RefPlot.strain(): fields and order, "
        "levels, time, geometry, boxes, bit-identical data per index range, token-exact restricted min/max rows, reference "
        "validation, taste (default + coordinates), input digest unchanged.",
   note="Controlled in-process pool with the identity schedule (schedules in C12).",
   tech="bounded-exhaustive exploration of the implementation against a reference model"),
 "C20": dict(cat="fault_enumeration", design="4/C20",
   text="C04's mutant space extended with byte-level edits (offset text 007 / +7 / tabs, FAB header blanks, precision descriptor, "
        "damaged or cut prefix, trailing whitespace). For every mutant that Taster(nofail) accepts, every box of every validated "
        "level is read through pck[:][lv][b]: it must read without error, have the shape the level header declares x nfields and "
        "equal the payload of a FAB in its file whose header names that range.",
   note="Only accepted mutants carry a demand; candidates are found by an independent byte search of the binary file.",
   tech="exhaustive fault enumeration (every operator x site, singles and pairs) with a differential validator/reader oracle"),
 "C06": dict(cat="model_checking", design="4/C06",
   text="combine(A, B) is executed for pairs of generated 3D plotfiles on a common mesh with independently chosen layouts (ordered set "
        "partitions x file numberings of each level, each side), every selection form (None / string / list, unknown names, reordered, "
        "overlapping field sets), and for mismatched pairs (level count, box added / removed / moved / grown, permuted, other dx, other "
        "origin, far-index box shifted by one cell). Output parsed independently and compared with RefPlot.combine(); mismatches must "
        "raise with no write-class file-system event (audit hook).",
   note="Controlled in-process pool, identity schedule (schedules in C12); selections leaving the second side empty are refused by the tool and outside the statement.",
   tech=T),
 "C08": dict(cat="model_checking", design="4/C08",
   text="Mandoline.slice(fformat='return') on generated 2D plotfiles (rectangular domains, non-square boxes, 1..3 levels, layouts, "
        "two origins x three cell shapes) x six field-list forms x every limit x serial / parallel under every order of the per-box "
        "pool.map tasks, with np.empty returning two different poison patterns; every pixel, the level map and the coordinates are "
        "compared bit-wise with the reference covering grid.",
   note="np.empty of the mandoline module is replaced by a poison-filling proxy; <= 4 boxes per level for the schedule exploration.",
   tech="bounded-exhaustive exploration + schedule exploration of the implementation against a reference model"),
 "C09": dict(cat="model_checking", design="4/C09",
   text="volume_integral is executed on 3D plotfiles with a fine box at EVERY even-aligned position and size over level-0 tilings "
        "(2/4-cell and 4/8-cell families), pairs of fine boxes, 3- and 4-level chains and the 16/24-cell template, positive and "
        "sign-alternating payloads, with and without volFrac, the level limit given through the reader, the argument and the CLI flag; "
        "compared with the reference sum over uncovered cells within 64 eps sum|v dV|.",
   note="Even blocking factor (2 cells) assumed, as the statement does.", tech=T),
 "C10": dict(cat="model_checking", design="4/C10",
   text="whip.cli.main() is driven through sys.argv for every field x dtype x --limit_level x explicit/default output on generated 3D "
        "plotfiles; each level's imap_unordered is explored over all completion orders of <= 4 per-file tasks x lazy|eager "
        "(deviation bound 1); the saved .npy must equal the reference covering grid cast to dtype bit for bit and be the same for every schedule.",
   note="Entry point run in-process with cwd = scratch directory; pool model of kv/vpool.py.",
   tech="stateless schedule exploration (controlled scheduler) of the implementation against a reference model"),
 "C19": dict(cat="model_checking", design="4/C19",
   text="pck[fsel](x,y,z) is evaluated at EVERY cell centre that is not covered by a finer level and lies one cell inside its box, for "
        "1..3 level 3D plotfiles x two origins x three cell shapes x {name, name list, slice}; points outside every face must be refused.",
   note="Payload affine in the cell index (distinct per level and field) so the tool's spline evaluation is exact at cell centres; tolerance 1e-6 against separations >= 1.",
   tech=T),
 "C13": dict(cat="fault_enumeration", design="4/C13",
   text="Every tool entry point (20: API and main() with sys.argv for colander, combine, chef, mandoline 2D/3D, whip, pestle, taste, menu, "
        "minuterie, marinate, chk2plt) x explicit / default output x eight path forms (relative, ./x, trailing slash, absolute, absolute + "
        "slash, cwd = parent or elsewhere) is run plain, on three deliberately broken inputs (missing binary, missing level header, unknown "
        "field) and once per counted write point (open-for-write, write, mkdir, rmtree, rename, remove) with ENOSPC injected there. "
        "A sys.addaudithook audit of every write-class event must show none inside an input tree and all under the requested output or "
        "the tool's documented default location; input snapshots (content, mode, mtime) must be unchanged; a failing run must end in an "
        "exception or non-zero exit (a fault absorbed by a library retry counts as failing only if the output differs from the unfaulted run).",
   note="In-process controlled pool so that worker writes are intercepted; one fault per run; third-party bookkeeping (matplotlib config dir) is "
        "redirected to its own scratch directory and excluded; 'output = input' is left out (the statement contradicts itself there).",
   tech="exhaustive fault injection at every write point + write audit of the real code"),
 "C18": dict(cat="model_checking", design="4/C18",
   text="minuterie.main, Menu in four modes, marinate.main + unpickle are executed on plotfiles whose 1..5 field names come from an alphabet "
        "built to collide (species, unknown names that are substrings or regexes of later ones, odd/even counts), 2D/3D, 1..3 levels, "
        "negative / zero / tiny / infinite times and extrema; and every ordered pair of menu calls on two plotfiles x 4x4 modes is executed "
        "in one process and compared with the same call on pristine process state (explicit history exploration of the class-level state).",
   note="Process-lifetime state of menu is the class attribute Menu.field_info, snapshot/restored by the harness to emulate a fresh process; NaN extrema excluded.",
   tech="bounded-exhaustive exploration incl. depth-2 operation histories against a reference model"),
 "C07": dict(cat="model_checking", design="4/C07",
   text="Mandoline.slice(fformat='return') is executed at EVERY lattice position (multiples of a quarter of the finest cell over the closed "
        "domain: cell centres, cell faces, box faces, both half-cell gaps next to every box face, domain faces; odd multiples for "
        "non-dyadic geometry) x normal x three axis rotations of 1..3-level meshes (fine boxes adjacent / separated along the normal, "
        "touching domain faces) x field lists x limits x serial/parallel x two np.empty poison patterns, and judged per pixel against an "
        "exact integer-lattice reference: affine field = a+b*pos, constant field = covering data, general field = lerp of the bracket "
        "samples of the finest containing level when both exist there (else membership in the finite candidate set), no poison, "
        "grid_level integral and a level with a box there, coordinates, default position = centre, outside refused.",
   note="Where the bracket of the finest containing level is incomplete the statement leaves the value open and the whole candidate set is accepted. "
        "One genuine defect is recorded as known finding (plane within half a cell of a face shared by two same-level boxes).",
   tech="bounded-exhaustive exploration of the implementation against an exact lattice reference model"),
 "C16": dict(cat="model_checking", design="4/C16",
   text="Mandoline.slice(fformat='plotfile') over C07's meshes x rotations x normals x lattice positions x field lists x limits and the "
        "file-splitting template (1..7 thin boxes x 8 fields crossing the 1 MB threshold, 1..4 files); the written directory is parsed "
        "independently: dimensionality, time, in-plane geometry, per level the multiset of footprints of the boxes the plane meets, per box "
        "the level's own bracket samples interpolated onto the plane, min/max = extrema of the written data, structural validity, taste "
        "(default + coordinates), no uninitialised memory.",
   note="Two genuine defects are recorded as known findings (aliased per-level arrays; crash when a selected level is not met by the plane); "
        "values that the aliasing explains are classified, everything else (structure, footprints, min/max, constant fields on uncovered boxes, cell-centre positions) stays enforced.",
   tech="bounded-exhaustive exploration of the implementation against an exact lattice reference model"),
 "C17": dict(cat="model_checking", design="4/C17",
   text="chk2plt is executed on synthetic PeleLMeX checkpoints (1..3 levels, anisotropic cells, ghost width 1..3, every box->file layout of "
        "the state subset x named layouts of gradp / I_R, 1..3 species, fractional / integral times, optional integer header line) for all 8 "
        "option combinations x three species sources, under every order of each level's per-state-file imap tasks x lazy|eager; the output "
        "is parsed independently and compared with the checkpoint interior bit for bit (floored mass fractions within 4 eps, summing to one), "
        "incl. box coordinates, taste(coords), min/max, and an audit that nothing is written into the checkpoint.",
   note="Checkpoint layout modelled on test_assets/example_chk_3d; the real CheckpointReader accepts the synthetic ones (checked in every run).",
   tech="bounded-exhaustive exploration + schedule exploration of the implementation against a reference model"),
 "C11": dict(cat="model_checking", design="4/C11",
   text="Chef(...).cook() is executed (a) for one- and three-component user recipes without solution array on 3D plotfiles x every "
        "layout of one deviating level x kept-field strings (None, one, two, reversed, with an unknown name) x serial / parallel under "
        "every order of the per-file tasks, and (b) on the drm19 template (24 fields, three box shapes, cells with T = 0 and sum(Y) = 0, "
        "three layouts, 1 and 5 atm) for HRR, ENT, SRi, SDi, RRi and a solution-array user recipe x kept fields x serial / parallel. "
        "The output is parsed independently: validity (reference + taste), every component under its own name (kept = input bits, new = "
        "recipe(reference box), resp. a per-cell Cantera Solution at the cell's T, P, Y within rtol 1e-12), min/max = extrema of the written data.",
   note="Cells whose state the tool declares undefined carry no demand on the new components; in-process controlled pool with a dill boundary (pathos worker lifetime is C12's subject).",
   tech=T),
 "C14": dict(cat="model_checking", design="4/C14",
   text="Explicit-state breadth-first search over tool histories (depth 3 quick, 4 thorough) from four roots (2D, two 3D, a chk2plt conversion): "
        "events colander(4 selections x 2 limits), chef(2 recipes x kept None/first), combine in both orders with a sibling and with every ancestor "
        "of the history; states deduplicated on a canonical key (content bits + on-disk layout); every state must pass reference validation and "
        "taste (default + coordinates) and equal the same pure operations applied to the in-memory RefPlot; combines that must be refused must raise and write nothing.",
   note="Controlled in-process pool, identity schedule; events that would repeat a field name are disabled.",
   tech="explicit-state BFS over operation histories with canonical state hashing, real tools as transition function"),
 "C12": dict(cat="model_checking", design="4/C12",
   text="For 15 pooled tool configurations (reader selections / iteration / on-demand iterator, taste incl. binary_data and a damaged input, "
        "colander 2D/3D, combine byfile and bybox, chef, mandoline 2D / 3D array and plotfile, pestle, whip, chk2plt) every pool call's tasks "
        "(2..4 per call, different data per task) are run in every permutation (= execution and completion order) x lazy|eager consumption, "
        "deviation bound 1 (2 thorough) over the calls of a run; all schedules must give one observation (return value bits, output tree bytes, "
        "exception), equal to the serial mode where it exists; audited per-task read/write path sets must be pairwise independent (which is what "
        "makes task-atomic interleavings exhaustive); every tool is also run free under the REAL multiprocessing / pathos pools and its "
        "observation must be among the explored ones; a two-cook Cantera history is run under the real pathos pool against its serial result.",
   note="Pool model = kv/vpool.py (CPython 3.12 multiprocessing.pool, pathos 0.3.5), bound to the real pools by the free-running pass in the parent process; "
        "> 4 tasks per call would be capped and reported.",
   tech="stateless schedule exploration (controlled scheduler, deviation-bounded) of the implementation + conformance runs under the real pools"),
}

NOT_YET = {}


# what was added to each check while building (DESIGN.md 8.2 / 8.5); appended to the level note
ADDED = {
 "C01": "Added since: extreme geometries, thin / single-cell boxes, six-digit indices in two directions, a 7-level 12-field plotfile (FAB header lines > 100 bytes), every permutation of <= 4 boxes as a selector, histories on one stream / selector object, schedules of multi-box selections. Later: case-variant / UTF-8 field names, a repeated name beside its generated key, 120 fields, 27 + 20 boxes over 3..5 files, level keys below -n, level directory prefix, binary file names of different lengths. Session 3: a level of 131 single-box files, caller-edits history (edit in place, re-read at once, through a list, through a second reader). Session 3 (every check): the working directory of every case holds decoy plotfile components, the directory holding the inputs has a blank and glob / regex metacharacters in its name, and for half of the generated plotfiles the process has read boxes (and edited the arrays it was given) before the operation under check. Kept level streams while every binary file is replaced by rename; mixed-width file numbers; twelve levels. Wave 11 (every check): every fourth case is preceded in the same process by its twin at the same paths (another time step, every value negated); a quarter of the generated plotfiles are named through link/../name with a look-alike at the lexical location (not in C02 C10 C12 C13 C17 C18, which spell their own paths); mixed-width file numbers and twelve-level plotfiles where the check takes the C01 universe. Mini wave 12: an 1100-field plotfile read through long index arrays / lists that differ in the middle.",
 "C02": "Added since: extreme geometries ARE in the alphabet now, thin meshes, six-digit indices, every opening of one plotfile must expose the same keys. Later: path forms (trailing slash, ./x, relative, symbolic link, link/../name with a decoy), NumPy level limits, UTF-8 / blank / case-variant names, 120 fields. Session 3: plotfiles opened by interpreters started with -O and -OO (finding fixed in the repository). Session 3 (every check): the working directory of every case holds decoy plotfile components, the directory holding the inputs has a blank and glob / regex metacharacters in its name, and for half of the generated plotfiles the process has read boxes (and edited the arrays it was given) before the operation under check. Public helpers of the reader used before a second comparison; twelve levels; index spaces starting at (8,16,0) / (-2,-2,-2) (known finding: grid sizes from the upper domain index alone). Wave 11 (every check): every fourth case is preceded in the same process by its twin at the same paths (another time step, every value negated); a quarter of the generated plotfiles are named through link/../name with a look-alike at the lexical location (not in C02 C10 C12 C13 C17 C18, which spell their own paths); mixed-width file numbers and twelve-level plotfiles where the check takes the C01 universe.",
 "C03": "Added since: fresh process per chunk with alternating limit order (process-lifetime state), huge payload, schedules of the full validation, default and chatty verbosity, the command line with every flag combination, the 7-level 12-field plotfile. Later: inherits the additions of the C01 universe (level prefix, many boxes, name variants, 120 fields). Session 3: inherits the 131-file level. Session 3 (every check): the working directory of every case holds decoy plotfile components, the directory holding the inputs has a blank and glob / regex metacharacters in its name, and for half of the generated plotfiles the process has read boxes (and edited the arrays it was given) before the operation under check. A level of 65 600 boxes. Wave 11 (every check): every fourth case is preceded in the same process by its twin at the same paths (another time step, every value negated); a quarter of the generated plotfiles are named through link/../name with a look-alike at the lexical location (not in C02 C10 C12 C13 C17 C18, which spell their own paths); mixed-width file numbers and twelve-level plotfiles where the check takes the C01 universe.",
 "C04": "Added since: in-place histories at one path, extreme geometries for the coordinate validation, offset-of-another-FAB operator, the taste command line, a 7-level 12-field base (single corruptions). Later: bounds off by 0.4 cell, NaN / -inf bounds, 'the name is there but it is a dangling link / a directory'. Session 3: every third non-failing validation with an ASCII-only standard output. Session 3 (every check): the working directory of every case holds decoy plotfile components, the directory holding the inputs has a blank and glob / regex metacharacters in its name, and for half of the generated plotfiles the process has read boxes (and edited the arrays it was given) before the operation under check. Stage-off validations of the intact base first; offsets +2^31 / +2^32 / +3*2^32; twelve-level base. Wave 11 (every check): every fourth case is preceded in the same process by its twin at the same paths (another time step, every value negated); a quarter of the generated plotfiles are named through link/../name with a look-alike at the lexical location (not in C02 C10 C12 C13 C17 C18, which spell their own paths); mixed-width file numbers and twelve-level plotfiles where the check takes the C01 universe.",
 "C05": "Added since: command line vs API for an option table, histories on one Colander object, 12-field plotfiles with huge values (24-character min/max tokens), sibling names, six-digit indices, the 7-level plotfile. Later: level prefix, names with blank / comma, run-end selections, another request into an existing output, one request list used for two plotfiles. Session 3: successive requests overwrite one output path per level limit; 131-file level. Session 3 (every check): the working directory of every case holds decoy plotfile components, the directory holding the inputs has a blank and glob / regex metacharacters in its name, and for half of the generated plotfiles the process has read boxes (and edited the arrays it was given) before the operation under check. Wave 11 (every check): every fourth case is preceded in the same process by its twin at the same paths (another time step, every value negated); a quarter of the generated plotfiles are named through link/../name with a look-alike at the lexical location (not in C02 C10 C12 C13 C17 C18, which spell their own paths); mixed-width file numbers and twelve-level plotfiles where the check takes the C01 universe. Mini wave 12: plotfile / output as pathlib.Path and the limit as np.int64 for every third request.",
 "C06": "Added since: str / list selection forms, one reader object used by three combines, the command line, extreme geometries (mesh comparison), far-index mismatch, a 7-level 12+12-field pair. Later: gapped numbers in by-file mode, first input opened with a level limit, level prefix, names with blank / comma in list selections. Session 3 (every check): the working directory of every case holds decoy plotfile components, the directory holding the inputs has a blank and glob / regex metacharacters in its name, and for half of the generated plotfiles the process has read boxes (and edited the arrays it was given) before the operation under check. Readers change roles after three combines; mixed-width file numbers in both modes. Wave 11 (every check): every fourth case is preceded in the same process by its twin at the same paths (another time step, every value negated); a quarter of the generated plotfiles are named through link/../name with a look-alike at the lexical location (not in C02 C10 C12 C13 C17 C18, which spell their own paths); mixed-width file numbers and twelve-level plotfiles where the check takes the C01 universe. Mini wave 12: pathlib.Path arguments; successive requests on the same readers to one output name.",
 "C07": "Added since: extreme geometries, hostile constant field, histories on one Mandoline object over all normals, schedules at neighbour-box positions, command line (default verbosity), +-1 ulp / +-1e-9 cell beside every lattice position, a 7-level 12-field plotfile (closed-form oracle), Pool(0) refused by the pool model. Later: every lattice point also for the non-dyadic geometry, level prefix, command line position 0.0, caller changes returned arrays in place between requests. Session 3: rotated field requests. Session 3 (every check): the working directory of every case holds decoy plotfile components, the directory holding the inputs has a blank and glob / regex metacharacters in its name, and for half of the generated plotfiles the process has read boxes (and edited the arrays it was given) before the operation under check. Position spellings (int, NumPy scalars). Wave 11 (every check): every fourth case is preceded in the same process by its twin at the same paths (another time step, every value negated); a quarter of the generated plotfiles are named through link/../name with a look-alike at the lexical location (not in C02 C10 C12 C13 C17 C18, which spell their own paths); mixed-width file numbers and twelve-level plotfiles where the check takes the C01 universe. Mini wave 12: positions as 0-d arrays; exact scaling differential (every field x 2^-70).",
 "C08": "Added since: extreme geometries, fine boxes aligned to one coarse cell, thin meshes, command line vs API. Later: case-variant names, level prefix, caller changes returned arrays (and coordinates) in place between requests. Session 3: both rotations of three names, rotation through grid_level. Session 3 (every check): the working directory of every case holds decoy plotfile components, the directory holding the inputs has a blank and glob / regex metacharacters in its name, and for half of the generated plotfiles the process has read boxes (and edited the arrays it was given) before the operation under check. Retry after a failed call on one object; cell sizes printed with 12 digits. Wave 11 (every check): every fourth case is preceded in the same process by its twin at the same paths (another time step, every value negated); a quarter of the generated plotfiles are named through link/../name with a look-alike at the lexical location (not in C02 C10 C12 C13 C17 C18, which spell their own paths); mixed-width file numbers and twelve-level plotfiles where the check takes the C01 universe.",
 "C09": "Added since: sibling volFrac names, non-finite values in covered cells, histories on one reader, command line vs API, the 7-level 12-field plotfile. Later: 27 + 20 boxes over five / three files, level prefix. Session 3 (every check): the working directory of every case holds decoy plotfile components, the directory holding the inputs has a blank and glob / regex metacharacters in its name, and for half of the generated plotfiles the process has read boxes (and edited the arrays it was given) before the operation under check. A reader opened before another time step is written over the plotfile. Wave 11 (every check): every fourth case is preceded in the same process by its twin at the same paths (another time step, every value negated); a quarter of the generated plotfiles are named through link/../name with a look-alike at the lexical location (not in C02 C10 C12 C13 C17 C18, which spell their own paths); mixed-width file numbers and twelve-level plotfiles where the check takes the C01 universe.",
 "C10": "Added since: all-zero fine boxes, two boxes of one file out of header order, field names differing by case, the 7-level 12-field plotfile gridded at 1024 x 128 x 128. Later: nine / eight files read with 1, 3, 16 CPUs, level prefix, a plotfile marinated before. Session 3 (every check): the working directory of every case holds decoy plotfile components, the directory holding the inputs has a blank and glob / regex metacharacters in its name, and for half of the generated plotfiles the process has read boxes (and edited the arrays it was given) before the operation under check. 73 728-cell channel; retry after a failed run to the same output. Wave 11 (every check): every fourth case is preceded in the same process by its twin at the same paths (another time step, every value negated); a quarter of the generated plotfiles are named through link/../name with a look-alike at the lexical location (not in C02 C10 C12 C13 C17 C18, which spell their own paths); mixed-width file numbers and twelve-level plotfiles where the check takes the C01 universe. Mini wave 12: dtype spellings float / double / single / f4 / <f8; a box replicated to more than 2^23 cells.",
 "C11": "Added since: recipes without docstring and passed as a callable, two recipe files with one base name, two cooks on one Chef object, command line vs API, file numbers with gaps, the 7-level 12-field plotfile. Later: two recipe files with one base name, level prefix, a planar flame, 1500 atm. Session 3: thorough tier runs every recipe x kept string on eight more meshes x eight geometries. Session 3 (every check): the working directory of every case holds decoy plotfile components, the directory holding the inputs has a blank and glob / regex metacharacters in its name, and for half of the generated plotfiles the process has read boxes (and edited the arrays it was given) before the operation under check. -0.0 cells in kept fields; mixed-width file numbers; Chef constructed before the time step is replaced. Wave 11 (every check): every fourth case is preceded in the same process by its twin at the same paths (another time step, every value negated); a quarter of the generated plotfiles are named through link/../name with a look-alike at the lexical location (not in C02 C10 C12 C13 C17 C18, which spell their own paths); mixed-width file numbers and twelve-level plotfiles where the check takes the C01 universe. Mini wave 12: pathlib.Path arguments; RRi with all 84 reactions, last first.",
 "C12": "Added since: pool size explored over 1 / 2 / 3 / 5 / 16, asynchronous pool calls, chdir histories and the two-cook Cantera history under the real pools, a plane that the finest level does not meet. Later: serial counterpart of reader selections, level iteration observed as a sequence, NaN / negative temperature cook, a differing replay of one schedule is a violation; two Chefs alive at once (A constructed, X constructed, A cooked: serial, controlled pool, real pool); lists of consecutive fields read box by box with all results held. Session 3: three box -> file layouts of the 3D input for every pooled tool (four per-file tasks, gapped numbering), reader_reread tool, chdir history over every pooled tool and a sibling directory with the same relative names (in-process and real pools). Session 3 (every check): the working directory of every case holds decoy plotfile components, the directory holding the inputs has a blank and glob / regex metacharacters in its name, and for half of the generated plotfiles the process has read boxes (and edited the arrays it was given) before the operation under check. Wave 11 (every check): every fourth case is preceded in the same process by its twin at the same paths (another time step, every value negated); a quarter of the generated plotfiles are named through link/../name with a look-alike at the lexical location (not in C02 C10 C12 C13 C17 C18, which spell their own paths); mixed-width file numbers and twelve-level plotfiles where the check takes the C01 universe. Mini wave 12: eleven tools once under the spawn start method (real pools, two workers).",
 "C13": "Added since: path shapes ./x, trailing slash, absolute; output = the existing directory holding the inputs; the same output written twice with other options; directory names with dots; audit resolves dir_fd-relative paths. Later: truncated input binary, inputs named through symbolic links, names without the chk / plt prefix. Session 3: unreadable input as a fault dimension - EACCES at every individual open-for-reading inside an input tree; tools without an output path judged by what they print. Session 3 (every check): the working directory of every case holds decoy plotfile components, the directory holding the inputs has a blank and glob / regex metacharacters in its name, and for half of the generated plotfiles the process has read boxes (and edited the arrays it was given) before the operation under check. Tools mandoline_object (explicit output first, then the call under check) and chk2plt_ref (reference plotfile beside a seven-digit checkpoint). Wave 11 (every check): every fourth case is preceded in the same process by its twin at the same paths (another time step, every value negated); a quarter of the generated plotfiles are named through link/../name with a look-alike at the lexical location (not in C02 C10 C12 C13 C17 C18, which spell their own paths); mixed-width file numbers and twelve-level plotfiles where the check takes the C01 universe. Mini wave 12: inputs whose name already ends in _ck; two inputs of one name in sibling directories.",
 "C14": "Added since: one reader object per state shared by all its combines, a chef event keeping two fields out of header order, a field with huge values. Later: thermochemical round trip (cook with kept fields by user solution-array recipe / ENT / SDi / HRR, combine back in both orders, strain all; kept and original components bit-equal). Session 3 (every check): the working directory of every case holds decoy plotfile components, the directory holding the inputs has a blank and glob / regex metacharacters in its name, and for half of the generated plotfiles the process has read boxes (and edited the arrays it was given) before the operation under check. One root with mixed-width file numbers, one always named through link/../root. Wave 11 (every check): every fourth case is preceded in the same process by its twin at the same paths (another time step, every value negated); a quarter of the generated plotfiles are named through link/../name with a look-alike at the lexical location (not in C02 C10 C12 C13 C17 C18, which spell their own paths); mixed-width file numbers and twelve-level plotfiles where the check takes the C01 universe.",
 "C15": "Added since: histories on one stream object, class-B field lists (run ends around a permuted / repeated interior), the 7-level 12-field plotfile. Later: case-variant names, 27 + 20 boxes (schedule window bounded), level prefix. Session 3: every class-A iteration also under warnings-as-errors (complete or loud), 131 / 65 files per level. Session 3 (every check): the working directory of every case holds decoy plotfile components, the directory holding the inputs has a blank and glob / regex metacharacters in its name, and for half of the generated plotfiles the process has read boxes (and edited the arrays it was given) before the operation under check. Wave 11 (every check): every fourth case is preceded in the same process by its twin at the same paths (another time step, every value negated); a quarter of the generated plotfiles are named through link/../name with a look-alike at the lexical location (not in C02 C10 C12 C13 C17 C18, which spell their own paths); mixed-width file numbers and twelve-level plotfiles where the check takes the C01 universe.",
 "C16": "Added since: extreme geometries, schedules of the per-level pool call, histories on one Mandoline object, command line vs API (default verbosity), the 7-level 12-field plotfile (closed-form oracle). Later: every lattice point also for the non-dyadic geometry, level prefix, command line position 0.0. Session 3: outputs re-used across requests (explicit path and default name), rotated field request. Session 3 (every check): the working directory of every case holds decoy plotfile components, the directory holding the inputs has a blank and glob / regex metacharacters in its name, and for half of the generated plotfiles the process has read boxes (and edited the arrays it was given) before the operation under check. Wave 11 (every check): every fourth case is preceded in the same process by its twin at the same paths (another time step, every value negated); a quarter of the generated plotfiles are named through link/../name with a look-alike at the lexical location (not in C02 C10 C12 C13 C17 C18, which spell their own paths); mixed-width file numbers and twelve-level plotfiles where the check takes the C01 universe.",
 "C17": "Added since: extreme geometries, species names with nested parentheses, the command line over all option combinations, a 7-level checkpoint with ten state components. Later: 27 + 20 boxes, gapped file numbers, species sums drifted by 1e-6, default output directory for eight ways of naming the checkpoint (trailing / and /., ./x, a 'latest' symlink, names without 'chk', '.' from inside it). Session 3: quick tier = ghost width x species count x species source product; thorough = full product incl. geometry, time and all option triples. Session 3 (every check): the working directory of every case holds decoy plotfile components, the directory holding the inputs has a blank and glob / regex metacharacters in its name, and for half of the generated plotfiles the process has read boxes (and edited the arrays it was given) before the operation under check. Wave 11 (every check): every fourth case is preceded in the same process by its twin at the same paths (another time step, every value negated); a quarter of the generated plotfiles are named through link/../name with a look-alike at the lexical location (not in C02 C10 C12 C13 C17 C18, which spell their own paths); mixed-width file numbers and twelve-level plotfiles where the check takes the C01 universe. Mini wave 12: switches as np.bool_ / 0 1; three 64 x 64 x 60 boxes in one state file (offsets beyond 2^25).",
 "C18": "Added since: huge values, nested parentheses, marinate after an in-place rewrite, directory names with dots and a marinated sibling, NaN in the tables of level 0 only vs of finer levels only. Later: all 32 option combinations of menu, one field on many-box levels, square tables, names with blanks, minuterie / menu after an in-place rewrite, marinate through link/../name. Session 3: 21-species and 1304-field plotfiles, COLUMNS 200 / 48 / 20; thorough = time x payload product. Session 3 (every check): the working directory of every case holds decoy plotfile components, the directory holding the inputs has a blank and glob / regex metacharacters in its name, and for half of the generated plotfiles the process has read boxes (and edited the arrays it was given) before the operation under check. menu / minuterie between marinate and re-marinate; twelve levels. Wave 11 (every check): every fourth case is preceded in the same process by its twin at the same paths (another time step, every value negated); a quarter of the generated plotfiles are named through link/../name with a look-alike at the lexical location (not in C02 C10 C12 C13 C17 C18, which spell their own paths); mixed-width file numbers and twelve-level plotfiles where the check takes the C01 universe.",
 "C19": "Added since: extreme geometries, selectors re-used across queries, adjacent fields in descending order, the 7-level 12-field plotfile. Later: magnitudes 1e12 / 1e-15 and non-finite values elsewhere in the box, selection lists re-used on a second plotfile, run-then-far lists on twelve fields, origin-straddling geometry, other spellings of a centre, descending box order, level prefix. Session 3: slices of four widths / offsets in sequence. Session 3 (every check): the working directory of every case holds decoy plotfile components, the directory holding the inputs has a blank and glob / regex metacharacters in its name, and for half of the generated plotfiles the process has read boxes (and edited the arrays it was given) before the operation under check. Face and corner queries before interior ones; mixed-width file numbers; twelve levels. Wave 11 (every check): every fourth case is preceded in the same process by its twin at the same paths (another time step, every value negated); a quarter of the generated plotfiles are named through link/../name with a look-alike at the lexical location (not in C02 C10 C12 C13 C17 C18, which spell their own paths); mixed-width file numbers and twelve-level plotfiles where the check takes the C01 universe.",
 "C20": "Added since: three field-selector forms, multi-box selectors (rotation, reversed slice, mask), one stream object re-used, the 7-level 12-field base. Later: run-like field lists, 'name present but no file' corruptions. Session 3: every numeric token of the FAB precision descriptor edited. Session 3 (every check): the working directory of every case holds decoy plotfile components, the directory holding the inputs has a blank and glob / regex metacharacters in its name, and for half of the generated plotfiles the process has read boxes (and edited the arrays it was given) before the operation under check. Index ranges of level k compared with level k's own header; twelve-level base. Wave 11 (every check): every fourth case is preceded in the same process by its twin at the same paths (another time step, every value negated); a quarter of the generated plotfiles are named through link/../name with a look-alike at the lexical location (not in C02 C10 C12 C13 C17 C18, which spell their own paths); mixed-width file numbers and twelve-level plotfiles where the check takes the C01 universe.",
}

def main():
    props = [json.loads(l) for l in open(os.path.join(HERE, "properties.jsonl"))]
    checks = []
    for pid, c in sorted(CHECKS.items()):
        checks.append({
            "property_id": pid,
            "quick_cmd": "bin/check %s --tier quick" % pid,
            "thorough_cmd": "bin/check %s --tier thorough" % pid,
            "evidence_file": "evidence/%s.json" % pid,
            "replay_cmd_template": "bin/check %s --replay {path}" % pid,
            "engine": "kv",
            "level_claimed": {"category": c["cat"], "text": c["text"], "design_ref": c["design"]},
            "level_note": c["note"] + (" " + ADDED[pid] if pid in ADDED else ""),
            "technique": c["tech"],
        })
    na = []
    for p in props:
        if p["id"] not in CHECKS:
            na.append({"property_id": p["id"],
                       "reason": NOT_YET.get(p["id"], "check not built yet (work in progress; see DESIGN.md section 4 for the plan)")})
    man = {
        "version": 1,
        "setup_cmd": "/venv/bin/python -m kv.conformance",
        "hooks": {"guard": "AMR_KITCHEN_VERIF", "enable": "no source hooks are needed: pool factories, open(), numpy and the audit "
                  "hook are substituted from outside the package by the harness",
                  "baseline_off_cmd": "cd /repo && /venv/bin/python -m pytest -ra -q -p no:cacheprovider --timeout=900 --continue-on-collection-errors",
                  "source_commits": [], "add_only": True},
        "engines": [{"name": "kv", "path": "kv/", "serves_properties": sorted(CHECKS),
                     "kind_free_text": "hand-written explicit-state / bounded-exhaustive explorer for Python: scope enumerators, "
                     "controlled process pool (schedules), fault injector, write audit, BFS over tool histories, reference model"}],
        "checks": checks,
        "not_applicable": na,
        "notes": "All checks: /verif/bin/check <ID> --tier quick|thorough; the package is imported from /repo (editable install), "
                 "so every run sees the current working tree. Scratch space lives under /dev/shm and is removed after every case.",
    }
    with open(os.path.join(HERE, "MANIFEST.json"), "w") as f:
        json.dump(man, f, indent=1)
    print("MANIFEST.json: %d checks, %d not claimed" % (len(checks), len(na)))

main()
