#!/bin/bash
# usage: tools_mut.sh <file-in-repo> <python-regex-old> <new> <check ids...>
# applies a one-off textual mutation to /repo, runs the quick checks, reverts. (development aid)
f=$1; old=$2; new=$3; shift 3
cd /repo || exit 2
/venv/bin/python - "$f" "$old" "$new" <<'PY' || exit 2
import sys,re
f,old,new=sys.argv[1:4]
s=open(f).read()
n=len(re.findall(old,s))
if n<1: print("MUTATION PATTERN NOT FOUND"); sys.exit(2)
s=re.sub(old,new,s,count=1)
open(f,'w').write(s)
PY
git -C /repo diff --stat | tail -1
for c in "$@"; do (cd /verif && KV_EVIDENCE_DIR=/dev/shm/ev_mut KV_REPLAY_DIR=/dev/shm/rp_mut bin/check $c --tier ${TIER:-quick} 2>&1 | grep -E "^(VIOLATION|HARNESS|C[0-9]+ tier|KNOWN)" | cut -c1-260 | awk 'NR<=4 || /tier=/'); done
git -C /repo checkout -- . 
