#!/venv/bin/python
"""Regenerate seeded/INDEX.md from the meta.json files."""
import os, json
HERE = os.path.dirname(os.path.abspath(__file__))
HEAD = """# Seeded property-breaking changes

Each directory holds `patch.diff` (against the repaired tree of its time), `demo.py` (exits 1 with the change, 0 without) and
`meta.json` (what it breaks, what it needs to manifest, what we ran and observed). All were produced by sub-agents that saw only
the text of one property and a scratch worktree (waves 3 and 4 - ids ending in C / D and E / F - were also told which kinds of
change already existed and asked for other mechanisms: process / object state, pool scheduling, I/O faults, unusual valid inputs,
cooperating edits), and were kept only after we confirmed ourselves that the repository's test-suite still passes with the change
(40 pass, `test_chk2plt` fails as in the baseline), that the demonstration fails with it and passes without it.
`tools_seed.py` re-runs that validation. None of them is ever committed to /repo. "detected by" is the result of the LAST
validation run (quick tier), always on a worktree at the then-current HEAD of /repo so that an already repaired defect is never
credited as detection.

| id | change | needs | detected by (quick tier) | history |
|---|---|---|---|---|
"""
def cell(s, n):
    s = " ".join(str(s).split()).replace("|", "/")
    return s[:n]
rows = []
for d in sorted(os.listdir(os.path.join(HERE, "seeded"))):
    p = os.path.join(HERE, "seeded", d, "meta.json")
    if not os.path.exists(p):
        continue
    m = json.load(open(p))
    rows.append("| %s | %s | %s | %s | %s |" % (d, cell(m.get("summary", ""), 230), cell(m.get("needs_to_manifest", ""), 200),
                                                ", ".join(m.get("detected_by", [])) or "NOT DETECTED", cell(m.get("history", ""), 600)))
open(os.path.join(HERE, "seeded", "INDEX.md"), "w").write(HEAD + "\n".join(rows) + "\n")
print(len(rows), "entries;", sum("NOT DETECTED" in r for r in rows), "not detected")
